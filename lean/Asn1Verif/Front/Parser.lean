import Asn1Verif.Front.ParserBase
/-
  Front end — mirror of the recursive-descent parser

    src/asn/model.rs      `Model::<Asn<Unresolved>>::try_from(Vec<Token>)`, `read_*`, `make_name_nice`
    src/asn/integer.rs    `Integer::try_from`
    src/asn/size.rs       `Size::try_from`
    src/asn/bit_string.rs `BitString::try_from`
    src/asn/tag.rs        `Tag::try_from`
    src/asn/enumerated.rs `Enumerated::try_from`
    src/asn/choice.rs     `Choice::try_from`
    src/asn/components.rs `ComponentTypeList::try_from`
    src/asn/inner_type_constraints.rs  `InnerTypeConstraints::try_from` (result discarded)

  as it is, quirks included.  The iterator `Peekable<IntoIter<Token>>` is a `List Token`; a
  function that consumes tokens returns the remaining list.  `loop { … }` bodies are recursive
  functions; every recursive call spends one unit of `fuel` (the top level supplies
  `tokens.length + 1`, every call consumes at least one token before it recurses; running out is
  the pseudo error `fuel`).  Lists that the Rust code builds by `push` are built by `cons` on the
  way back, which is the same list.

  String literals (`read_string_literal`) are rebuilt by the real code from token *columns*.  The
  tokens of this model carry no location; the model assumes the **canonical layout** in which
  consecutive tokens of a literal are separated by exactly one space on one line (that is what
  `Front/Printer.lean` renders and what the `parse` stream sends).  Under that layout the gap
  before every token after the first is one space; the first token (whatever it is, also the closing
  delimiter: the empty literal) starts the content without a gap (`prev_loc` is its own location).
-/
namespace Asn1Verif.Front.Syn
open Except

/-! ### constants `{ name(value), … }` — `maybe_read_constants`, `read_constant` -/

/-- `constant_i64_parser` -/
def constantI64 (t : Token) : FR Int :=
  match t.text?.bind parseI64 with
  | some i => .ok i
  | none => .error .invalidValueForConstant

/-- `constant_u64_parser` -/
def constantU64 (t : Token) : FR Nat :=
  match t.text?.bind parseU64 with
  | some i => .ok i
  | none => .error .invalidValueForConstant

/-- `read_constant`: `name ( value )`, the value is parsed after the closing parenthesis -/
def readConstant {R : Type} (parser : Token → FR R) (ts : List Token) :
    FR ((String × R) × List Token) := do
  let (name, ts) ← nextTextOrErr ts
  let ts ← nextSepEq '(' ts
  let (value, ts) ← nextOrErr ts
  let ts ← nextSepEq ')' ts
  let v ← parser value
  pure ((name, v), ts)

/-- the `loop` of `maybe_read_constants` (after the opening brace) -/
def constantsLoop {R : Type} (parser : Token → FR R) :
    Nat → List Token → FR (List (String × R) × List Token)
  | 0, _ => .error .fuel
  | fuel + 1, ts => do
    let (c, ts) ← readConstant parser ts
    let (t, ts) ← nextOrErr ts
    let continues ← loopCtrl t
    if continues then
      let (cs, ts) ← constantsLoop parser fuel ts
      pure (c :: cs, ts)
    else pure ([c], ts)

/-- `maybe_read_constants` -/
def maybeReadConstants {R : Type} (parser : Token → FR R) (fuel : Nat) (ts : List Token) :
    FR (List (String × R) × List Token) :=
  match nextIsSep '{' ts with
  | some ts => constantsLoop parser fuel ts
  | none => .ok ([], ts)

/-! ### INTEGER — `Integer::try_from` -/

/-- a range bound: a text token other than `kw` (`MIN` resp. `MAX`, compared exactly: `min`, `Max`
    are value references) is a literal when it parses as `i64`, else a reference; everything else
    (also a separator token) is `None` -/
def rangeBound (t : Token) (kw : String) : Option URange :=
  match t with
  | .text s =>
    if s = kw then none
    else match parseI64 s with
      | some i => some (.lit i)
      | none => some (.ref s)
  | .sep _ => none

/-- optional `, ...` -/
def maybeExtensible (ts : List Token) : FR (Bool × List Token) :=
  match nextIsSep ',' ts with
  | some ts => do
    let ts ← dots 3 ts
    pure (true, ts)
  | none => .ok (false, ts)

/-- the quirk: `(0..MAX)` and `(MIN..9223372036854775807)` become "no range" -/
def integerRange (s e : Option URange) (ext : Bool) : Range URange :=
  if (s = some (.lit 0) ∧ e = none) ∨ (s = none ∧ e = some (.lit I64_MAX)) then ⟨none, none, ext⟩
  else ⟨s, e, ext⟩

def parseInteger (fuel : Nat) (ts : List Token) :
    FR ((Range URange × List (String × Int)) × List Token) := do
  let (constants, ts) ← maybeReadConstants constantI64 fuel ts
  match nextIsSep '(' ts with
  | some ts =>
    let (start, ts) ← nextOrErr ts
    let ts ← dots 2 ts
    let (stop, ts) ← nextOrErr ts
    let (ext, ts) ← maybeExtensible ts
    let ts ← nextSepEq ')' ts
    pure ((integerRange (rangeBound start "MIN") (rangeBound stop "MAX") ext, constants), ts)
  | none => pure ((⟨none, none, false⟩, constants), ts)

/-! ### SIZE — `Size::try_from`, `maybe_read_size` -/

/-- a size bound: as `rangeBound` with `usize`, and the literal `drop` (0 resp. `i64::MAX`) is
    filtered away -/
def sizeBound (t : Token) (kw : String) (drop : Nat) : Option USz :=
  match t with
  | .text s =>
    if s = kw then none
    else match parseU64 s with
      | some n => if n = drop then none else some (.lit n)
      | none => some (.ref s)
  | .sep _ => none

/-- `start.unwrap_or_default()`: `LitOrRef::default() = Lit(0)` -/
def sizeStartOr0 (s : Option USz) : USz := s.getD (.lit 0)

def parseSize (ts : List Token) : FR (Size USz × List Token) := do
  let ts ← nextTextEqIC "SIZE" ts
  let ts ← nextSepEq '(' ts
  let (start, ts) ← nextOrErr ts
  let start := sizeBound start "MIN" 0
  if !peekIsSep '.' ts then
    let (t, ts) ← nextOrErr ts
    if t.eqSep ')' then pure (.fix (sizeStartOr0 start) false, ts)
    else if t.eqSep ',' then
      let ts ← dots 3 ts
      let ts ← nextSepEq ')' ts
      pure (.fix (sizeStartOr0 start) true, ts)
    else .error .unexpectedToken
  else
    let ts ← dots 2 ts
    let (stop, ts) ← nextOrErr ts
    let stop := sizeBound stop "MAX" SIZE_MAX
    -- `any`: the two other patterns of the `matches!` are unreachable after the filters;
    -- `(0..MAX, ...)` is extensible and takes the general path
    if start.isNone && stop.isNone && peekIsSep ')' ts then
      let ts ← nextSepEq ')' ts
      pure (.any, ts)
    else
      let a := sizeStartOr0 start
      let b := stop.getD (.lit SIZE_MAX)
      let (ext, ts) ← maybeExtensible ts
      let ts ← nextSepEq ')' ts
      if a = b then pure (.fix a ext, ts) else pure (.range a b ext, ts)

def maybeReadSize (ts : List Token) : FR (Size USz × List Token) :=
  match nextIsSep '(' ts with
  | some ts => do
    let (s, ts) ← parseSize ts
    let ts ← nextSepEq ')' ts
    pure (s, ts)
  | none =>
    if peekIsTextIC "SIZE" ts then parseSize ts else .ok (.any, ts)

/-! ### tags — `Tag::try_from`, `next_with_opt_tag` -/

def parseTagNumber (t : Token) : FR Nat :=
  match t.text?.bind parseU64 with
  | some n => .ok n
  | none => .error .invalidTag

def parseTag (ts : List Token) : FR (Tag × List Token) := do
  let (t, ts) ← nextOrErr ts
  if t.eqTextIC "UNIVERSAL" then
    let (n, ts) ← nextOrErr ts
    let n ← parseTagNumber n
    pure (.universal n, ts)
  else if t.eqTextIC "APPLICATION" then
    let (n, ts) ← nextOrErr ts
    let n ← parseTagNumber n
    pure (.application n, ts)
  else if t.eqTextIC "PRIVATE" then
    let (n, ts) ← nextOrErr ts
    let n ← parseTagNumber n
    pure (.priv n, ts)
  else if t.isText then
    let n ← parseTagNumber t
    pure (.contextSpecific n, ts)
  else .error .expectedText

def nextWithOptTag (ts : List Token) : FR ((Token × Option Tag) × List Token) := do
  let (t, ts) ← nextOrErr ts
  if t.eqSep '[' then
    let (tag, ts) ← parseTag ts
    let ts ← nextSepEq ']' ts
    let (t, ts) ← nextOrErr ts
    pure ((t, some tag), ts)
  else pure ((t, none), ts)

/-! ### ENUMERATED — `Enumerated::try_from` -/

/-- the `loop` (after the opening brace); `n` = number of variants so far, `ext` = marker seen.
    Returns the variants from here on and the marker position if it is set from here on. -/
def enumLoop : Nat → Nat → Bool → List Token → FR ((List EnumVariant × Option Nat) × List Token)
  | 0, _, _, _ => .error .fuel
  | fuel + 1, n, ext, ts =>
    match nextIsSep '.' ts with
    | some ts =>
      if n = 0 || ext then .error .invalidPositionForExtensionMarker
      else do
        let ts ← dots 2 ts
        let (t, ts) ← nextOrErr ts
        let continues ← loopCtrl t
        if continues then
          let ((vs, _), ts) ← enumLoop fuel n true ts
          -- a second marker is an error, so the position cannot be overwritten further down
          pure ((vs, some (n - 1)), ts)
        else pure (([], some (n - 1)), ts)
    | none => do
      let (name, ts) ← nextTextOrErr ts
      let (t, ts) ← nextOrErr ts
      if t.eqSep ',' || t.eqSep '}' then
        if t.eqSep ',' then
          let ((vs, e), ts) ← enumLoop fuel (n + 1) ext ts
          pure ((⟨name, none⟩ :: vs, e), ts)
        else pure (([⟨name, none⟩], none), ts)
      else if t.eqSep '(' then
        let (num, ts) ← nextOrErr ts
        match num.text?.bind parseU64 with
        | none => .error .invalidNumberForEnumVariant
        | some number =>
          let ts ← nextSepEq ')' ts
          let (t, ts) ← nextOrErr ts
          let continues ← loopCtrl t
          if continues then
            let ((vs, e), ts) ← enumLoop fuel (n + 1) ext ts
            pure ((⟨name, some number⟩ :: vs, e), ts)
          else pure (([⟨name, some number⟩], none), ts)
      else .error .unexpectedToken

def parseEnumerated (fuel : Nat) (ts : List Token) : FR (Enumerated × List Token) := do
  let ts ← nextSepEq '{' ts
  let ((vs, e), ts) ← enumLoop fuel 0 false ts
  pure (⟨vs, e⟩, ts)

/-! ### `( WITH COMPONENTS { … } )` — `InnerTypeConstraints::try_from`; the result is dropped by
    the caller, only the consumed tokens and the errors matter -/

/-- `ValueConstraint::try_from`: swallow everything up to the matching `)` (not consumed) -/
def valueConstraint : List Token → Nat → FR (List Token)
  | [], _ => .error .unexpectedEndOfStream
  | t :: r, level =>
    if level = 0 && t.eqSep ')' then .ok (t :: r)
    else if t.eqSep '(' then valueConstraint r (level + 1)
    else if t.eqSep ')' then valueConstraint r (level - 1)
    else valueConstraint r level

/-- `PresenceConstraint::try_from` -/
def presenceConstraint (ts : List Token) : FR (List Token) := do
  let (t, ts) ← nextOrErr ts
  if t.eqTextIC "PRESENT" || t.eqTextIC "ABSENT" || t.eqTextIC "OPTIONAL" then pure ts
  else .error .unexpectedToken

/-- the `while !iter.peek_is_separator_eq('}')` loop -/
def innerEntries : Nat → List Token → FR (List Token)
  | 0, _ => .error .fuel
  | fuel + 1, ts =>
    if peekIsSep '}' ts then .ok ts
    else do
      let (_, ts) ← nextTextOrErr ts
      let ts ← (if peekIsSep '(' ts then do
          let ts ← nextSepEq '(' ts
          let ts ← valueConstraint ts 0
          nextSepEq ')' ts
        else pure ts)
      let p ← peekOrErr ts
      let ts ← (if p.isText then presenceConstraint ts else pure ts)
      if peekIsSep ',' ts then do
        let ts ← nextSepEq ',' ts
        innerEntries fuel ts
      else pure ts

def innerTypeConstraints (fuel : Nat) (ts : List Token) : FR (List Token) := do
  let ts ← nextTextEqIC "WITH" ts
  let ts ← nextTextEqIC "COMPONENTS" ts
  let ts ← nextSepEq '{' ts
  let ts ← (if peekIsSep '.' ts then do
      let ts ← dots 3 ts
      if peekIsSep ',' ts then nextSepEq ',' ts else pure ts
    else pure ts)
  let ts ← innerEntries fuel ts
  nextSepEq '}' ts

/-- `maybe_read_with_components_constraint` -/
def maybeReadWithComponents (fuel : Nat) (ts : List Token) : FR (List Token) :=
  match nextIsSep '(' ts with
  | some ts => do
    let ts ← innerTypeConstraints fuel ts
    nextSepEq ')' ts
  | none => .ok ts

/-! ### literals — `read_literal`, `read_string_literal`, `read_hex_or_bit_string_literal` -/

/-- the `loop` of `read_string_literal`; `gap` = number of spaces the column arithmetic inserts
    before the next token (canonical layout, see the header) -/
def stringLoop (delim : Char) : List Token → Nat → FR (List Char × List Token)
  | [], _ => .error .unexpectedEndOfStream
  | t :: r, gap =>
    if t.eqSep delim then .ok ([], r)
    else do
      let (cs, r') ← stringLoop delim r 1
      pure (List.replicate gap ' ' ++ t.chars ++ cs, r')

/-- `read_string_literal(iter, delimiter)`: the literal *with* both delimiters.  `prev_loc` starts
    at the location of the first token after the opening delimiter (`peek_or_err`), so that token —
    text, separator or already the closing delimiter — is handled by the loop with no gap -/
def readStringLiteral (delim : Char) (ts : List Token) : FR (List Char × List Token) := do
  let ts ← nextSepEq delim ts
  let _ ← peekOrErr ts
  let (cs, ts) ← stringLoop delim ts 0
  pure (delim :: cs ++ [delim], ts)

/-- `read_hex_or_bit_string_literal` -/
def readHexOrBitStringLiteral (ts : List Token) : FR (List Char × List Token) := do
  let (cs, ts) ← readStringLiteral '\'' ts
  match ts with
  | [] => .error .unexpectedEndOfStream
  | t :: r =>
    match t with
    | .text s => if eqIC s "H" || eqIC s "B" then pure (cs ++ s.toList, r) else .error .unexpectedToken
    | .sep _ => .error .unexpectedToken

/-- `read_literal`; the `UnsupportedLiteral` error carries whether the offending token is text
    (`read_field` turns that case into a reference) -/
inductive LitResult where
  | lit (v : LiteralValue)
  | unsupportedText

def readLiteral (ts : List Token) : FR (LitResult × List Token) := do
  let p ← peekOrErr ts
  let isPlain := match p with
    | .text s => eqIC s "true" || eqIC s "false" || looksLikeInt s.toList
    | .sep _ => false
  if isPlain then
    let (s, ts) ← nextTextOrErr ts
    match tryFromAsnStr s.toList with
    | some v => pure (.lit v, ts)
    | none => .error .invalidLiteral
  else if p.eqSep '"' then
    let (cs, ts) ← readStringLiteral '"' ts
    match tryFromAsnStr cs with
    | some v => pure (.lit v, ts)
    | none => .error .invalidLiteral
  else if p.eqSep '\'' then
    let (cs, ts) ← readHexOrBitStringLiteral ts
    match tryFromAsnStr cs with
    | some v => pure (.lit v, ts)
    | none => .error .invalidLiteral
  else if p.isText then pure (.unsupportedText, ts)
  else .error .unsupportedLiteral

/-! ### types — `read_role_given_text` and the constructs that nest -/

/-- after the type of a field: `OPTIONAL` | `DEFAULT literal-or-name` | nothing, then `,` or `}`.
    Returns optional?, default, continues?, rest. -/
def fieldTail (ts : List Token) : FR ((Bool × Option UConst × Bool) × List Token) := do
  let (t, ts) ← nextOrErr ts
  let ((opt, dflt, t), ts) ←
    (if t.eqTextIC "OPTIONAL" then do
      let (t, ts) ← nextOrErr ts
      pure ((true, none, t), ts)
    else if t.eqTextIC "DEFAULT" then do
      let (l, ts) ← readLiteral ts
      match l with
      | .lit v =>
        let (t, ts) ← nextOrErr ts
        pure ((false, some (.lit v), t), ts)
      | .unsupportedText =>
        let (name, ts) ← nextTextOrErr ts
        let (t, ts) ← nextOrErr ts
        pure ((false, some (.ref name), t), ts)
    else pure ((false, none, t), ts) : FR ((Bool × Option UConst × Token) × List Token))
  if t.eqSep ',' then pure ((opt, dflt, true), ts)
  else if t.eqSep '}' then pure ((opt, dflt, false), ts)
  else .error .unexpectedToken

/-- the keyword classes of `match text.to_ascii_lowercase().as_ref()` in `read_role_given_text` -/
inductive Kw where
  | integer | boolean | null | utf8string | ia5string | numericstring | printablestring
  | visiblestring | octet | bit | enumerated | choice | sequence | set | other
  deriving DecidableEq, Repr

def kwClass (text : String) : Kw :=
  let kw := lowerL text
  if kw = "integer".toList then .integer
  else if kw = "boolean".toList then .boolean
  else if kw = "null".toList then .null
  else if kw = "utf8string".toList then .utf8string
  else if kw = "ia5string".toList then .ia5string
  else if kw = "numericstring".toList then .numericstring
  else if kw = "printablestring".toList then .printablestring
  else if kw = "visiblestring".toList then .visiblestring
  else if kw = "octet".toList then .octet
  else if kw = "bit".toList then .bit
  else if kw = "enumerated".toList then .enumerated
  else if kw = "choice".toList then .choice
  else if kw = "sequence".toList then .sequence
  else if kw = "set".toList then .set
  else .other

/-- a restricted character string type: `Type::String(maybe_read_size(iter)?, charset)` -/
def parseString (cs : Charset) (ts : List Token) : FR (UTy × List Token) := do
  let (s, ts) ← maybeReadSize ts
  pure (.string s cs, ts)

mutual
/-- `read_role_given_text(iter, text)` -/
def parseRoleGiven : Nat → String → List Token → FR (UTy × List Token)
  | 0, _, _ => .error .fuel
  | fuel + 1, text, ts =>
    match kwClass text with
    | .integer => do
      let ((range, constants), ts) ← parseInteger fuel ts
      pure (.integer range constants, ts)
    | .boolean => pure (.boolean, ts)
    | .null => pure (.null, ts)
    | .utf8string => parseString .utf8 ts
    | .ia5string => parseString .ia5 ts
    | .numericstring => parseString .numeric ts
    | .printablestring => parseString .printable ts
    | .visiblestring => parseString .visible ts
    | .octet => do
      let ts ← nextTextEqIC "STRING" ts
      let (s, ts) ← maybeReadSize ts
      pure (.octetString s, ts)
    | .bit => do
      let ts ← nextTextEqIC "STRING" ts
      let (constants, ts) ← maybeReadConstants constantU64 fuel ts
      let (s, ts) ← maybeReadSize ts
      pure (.bitString s constants, ts)
    | .enumerated => do
      let (e, ts) ← parseEnumerated fuel ts
      pure (.enumerated e, ts)
    | .choice => do
      let ts ← nextSepEq '{' ts
      let ((vs, e), ts) ← choiceLoop fuel 0 false ts
      pure (.choice vs e, ts)
    | .sequence => do
      let (size, ts) ← maybeReadSize ts
      match nextIsTextEqIC "OF" ts with
      | some ts =>
        let (text, ts) ← nextTextOrErr ts
        let (inner, ts) ← parseRoleGiven fuel text ts
        pure (.sequenceOf inner size, ts)
      | none =>
        let ts ← nextSepEq '{' ts
        let ((fs, e), ts) ← componentLoop fuel 0 ts
        pure (.sequence fs e, ts)
    | .set => do
      let (size, ts) ← maybeReadSize ts
      match nextIsTextEqIC "OF" ts with
      | some ts =>
        let (text, ts) ← nextTextOrErr ts
        let (inner, ts) ← parseRoleGiven fuel text ts
        pure (.setOf inner size, ts)
      | none =>
        let ts ← nextSepEq '{' ts
        let ((fs, e), ts) ← componentLoop fuel 0 ts
        pure (.set fs e, ts)
    | .other => do
      let ts ← maybeReadWithComponents fuel ts
      pure (.typeReference text none, ts)

/-- the `loop` of `Choice::try_from` (after the opening brace); `n` = variants so far -/
def choiceLoop : Nat → Nat → Bool → List Token → FR ((UVariants × Option Nat) × List Token)
  | 0, _, _, _ => .error .fuel
  | fuel + 1, n, ext, ts =>
    match nextIsSep '.' ts with
    | some ts =>
      if n = 0 || ext then .error .invalidPositionForExtensionMarker
      else do
        let ts ← dots 2 ts
        let (t, ts) ← nextOrErr ts
        let continues ← loopCtrl t
        if continues then
          let ((vs, _), ts) ← choiceLoop fuel n true ts
          pure ((vs, some (n - 1)), ts)
        else pure ((.nil, some (n - 1)), ts)
    | none => do
      let (name, ts) ← nextTextOrErr ts
      let ((t, tag), ts) ← nextWithOptTag ts
      match t with
      | .sep _ => .error .expectedText
      | .text text =>
        let (ty, ts) ← parseRoleGiven fuel text ts
        let (t, ts) ← nextOrErr ts
        let continues ← loopCtrl t
        if continues then
          let ((vs, e), ts) ← choiceLoop fuel (n + 1) ext ts
          pure ((.cons name tag ty vs, e), ts)
        else pure ((.cons name tag ty .nil, none), ts)

/-- the `loop` of `ComponentTypeList::try_from` (after the opening brace); `n` = fields so far.
    A marker sets `extension_after = Some(n.saturating_sub(1))`; a later marker overwrites. -/
def componentLoop : Nat → Nat → List Token → FR ((UFields × Option Nat) × List Token)
  | 0, _, _ => .error .fuel
  | fuel + 1, n, ts =>
    match nextIsSep '}' ts with
    | some ts => pure ((.nil, none), ts)
    | none =>
      match nextIsSep '.' ts with
      | some ts => do
        let ts ← dots 2 ts
        let (t, ts) ← nextOrErr ts
        if t.eqSep ',' then
          let ((fs, e), ts) ← componentLoop fuel n ts
          pure ((fs, match e with | some k => some k | none => some (n - 1)), ts)
        else if t.eqSep '}' then pure ((.nil, some (n - 1)), ts)
        else .error .unexpectedToken
      | none => do
        -- `read_field`
        let (name, ts) ← nextTextOrErr ts
        let ((t, tag), ts) ← nextWithOptTag ts
        match t with
        | .sep _ => .error .expectedText
        | .text text =>
          let (ty, ts) ← parseRoleGiven fuel text ts
          let ((opt, dflt, continues), ts) ← fieldTail ts
          let ty := if opt then .optional ty else ty
          if continues then
            let ((fs, e), ts) ← componentLoop fuel (n + 1) ts
            pure ((.cons name tag ty dflt fs, e), ts)
          else pure ((.cons name tag ty dflt .nil, none), ts)
end

/-- `read_role` -/
def parseRole (fuel : Nat) (ts : List Token) : FR (UTy × List Token) := do
  let (text, ts) ← nextTextOrErr ts
  parseRoleGiven fuel text ts

/-! ### module level -/

/-- the `loop` of `read_oid` (after the opening brace); running out of tokens is *not* an error -/
def oidLoop : Nat → List Token → FR (Oid × List Token)
  | 0, _ => .error .fuel
  | _ + 1, [] => .ok ([], [])
  | fuel + 1, t :: ts =>
    if t.eqSep '}' then .ok ([], ts)
    else match t with
      | .sep _ => .error .unexpectedToken
      | .text ident =>
        -- `identifier.chars().all(char::is_numeric)`: modelled for ASCII (see DESIGN A.4)
        if ident.toList.all Char.isDigit then
          match parseU64 ident with
          | none => .error .invalidIntText
          | some n => do
            let (cs, ts) ← oidLoop fuel ts
            pure (.numberForm n :: cs, ts)
        else match nextIsSep '(' ts with
          | some ts => do
            let (num, ts) ← nextTextOrErr ts
            match parseU64 num with
            | none => .error .invalidIntText
            | some n =>
              let ts ← nextSepEq ')' ts
              let (cs, ts) ← oidLoop fuel ts
              pure (.nameAndNumberForm ident n :: cs, ts)
          | none => do
            let (cs, ts) ← oidLoop fuel ts
            pure (.nameForm ident :: cs, ts)

/-- `maybe_read_oid` -/
def maybeReadOid (fuel : Nat) (ts : List Token) : FR (Option Oid × List Token) :=
  match nextIsSep '{' ts with
  | some ts => do
    let (o, ts) ← oidLoop fuel ts
    pure (some o, ts)
  | none => .ok (none, ts)

/-- `skip_until_after_text_ignore_ascii_case` -/
def skipUntilAfter (kw : String) : List Token → FR (List Token)
  | [] => .error .unexpectedEndOfStream
  | t :: r => if t.eqTextIC kw then .ok r else skipUntilAfter kw r

/-- the `loop` of `read_imports`; `what` = symbols collected for the import under construction
    (a symbol list that is not followed by `FROM` before the `;` is dropped) -/
def importsLoop : Nat → List String → List Token → FR (List Import × List Token)
  | 0, _, _ => .error .fuel
  | _ + 1, _, [] => .error .unexpectedEndOfStream
  | fuel + 1, what, t :: ts =>
    if t.eqSep ';' then .ok ([], ts)
    else match t with
      | .sep _ => .error .unexpectedToken
      | .text sym => do
        let what := what ++ [sym]
        let (t2, ts) ← nextOrErr ts
        if t2.eqSep ',' then importsLoop fuel what ts
        else if t2.eqTextIC "FROM" then
          let (frm, ts) ← nextTextOrErr ts
          let (oid, ts) ← maybeReadOid fuel ts
          let (is, ts) ← importsLoop fuel [] ts
          pure (⟨what, frm, oid⟩ :: is, ts)
        else importsLoop fuel what ts   -- any other token is swallowed

/-- `read_definition` (the name has been taken, the next token is `:`) -/
def readDefinition (fuel : Nat) (name : String) (ts : List Token) : FR (UDefinition × List Token) := do
  let ts ← nextSepEq ':' ts
  let ts ← nextSepEq ':' ts
  let ts ← nextSepEq '=' ts
  let ((t, tag), ts) ← nextWithOptTag ts
  match t with
  | .sep _ => .error .unexpectedToken
  | .text text =>
    -- the five branches of `read_definition` coincide with `read_role_given_text`
    let (ty, ts) ← parseRoleGiven fuel text ts
    pure (⟨name, tag, ty⟩, ts)

/-- `read_value_reference` -/
def readValueReference (fuel : Nat) (name : String) (ts : List Token) :
    FR (UValueReference × List Token) := do
  let (ty, ts) ← parseRole fuel ts
  let ts ← nextSepEq ':' ts
  let ts ← nextSepEq ':' ts
  let ts ← nextSepEq '=' ts
  let (l, ts) ← readLiteral ts
  match l with
  | .lit v => pure (⟨name, ty, v⟩, ts)
  | .unsupportedText => .error .unsupportedLiteral

/-- `make_name_nice`: strip one trailing `_Module`, then one trailing `Module` -/
def stripSuffix (cs suffix : List Char) : List Char :=
  if suffix.isSuffixOf cs then cs.take (cs.length - suffix.length) else cs

def makeNameNice (s : String) : String :=
  String.ofList (stripSuffix (stripSuffix s.toList "_Module".toList) "Module".toList)

/-- what the body loop of `Model::try_from` collects -/
structure Body where
  imports : List Import := []
  definitions : List UDefinition := []
  valueReferences : List UValueReference := []

/-- the `while let Some(token) = iter.next()` loop of `Model::try_from` -/
def bodyLoop : Nat → List Token → FR Body
  | 0, _ => .error .fuel
  | _ + 1, [] => .error .unexpectedEndOfStream
  | fuel + 1, t :: ts =>
    if t.eqTextIC "END" then .ok {}
    else if t.eqTextIC "IMPORTS" then do
      let (is, ts) ← importsLoop fuel [] ts
      let b ← bodyLoop fuel ts
      pure { b with imports := is ++ b.imports }
    else if peekIsSep ':' ts then
      match t with
      | .sep _ => .error .unexpectedToken
      | .text name => do
        let (d, ts) ← readDefinition fuel name ts
        let b ← bodyLoop fuel ts
        pure { b with definitions := d :: b.definitions }
    else
      match t with
      | .sep _ => .error .unexpectedToken
      | .text name => do
        let (v, ts) ← readValueReference fuel name ts
        let b ← bodyLoop fuel ts
        pure { b with valueReferences := v :: b.valueReferences }

/-- `Model::<Asn<Unresolved>>::try_from(tokens)` with an explicit recursion budget -/
def parseModuleFuel (fuel : Nat) (ts : List Token) : FR UModule := do
  -- `read_name`
  let (name, ts) ← (match ts with
    | .text s :: r => pure (s, r)
    | _ => .error .missingModuleName : FR (String × List Token))
  let (oid, ts) ← maybeReadOid fuel ts
  let ts ← skipUntilAfter "BEGIN" ts
  let b ← bodyLoop fuel ts
  -- `make_names_nice`
  pure {
    name := makeNameNice name
    oid := oid
    imports := b.imports.map fun i => { i with «from» := makeNameNice i.«from» }
    definitions := b.definitions
    valueReferences := b.valueReferences }

/-- `Model::<Asn<Unresolved>>::try_from(tokens)` -/
def parseModule (ts : List Token) : FR UModule := parseModuleFuel (ts.length + 1) ts

end Asn1Verif.Front.Syn
