import Asn1Verif.Front.Tokenizer
import Asn1Verif.Front.Parser
import Asn1Verif.Front.Resolve
/-
  Front end — the composition the property C14 talks about, as one function:

      text ──tokenize──▶ located tokens ──bridge──▶ parser tokens ──parseModule──▶ Model<Asn<Unresolved>>
           ──tryResolve──▶ Model<Asn<Resolved>>

  (`Tokenizer::parse`, `Model::try_from`, `Model::try_resolve` of asn1rs-model.)  The two
  conversions that follow in the real pipeline (`to_rust`, `to_protobuf`) are structural
  recursions over the resolved model except for `TagResolver`, whose mirror with its own
  totality theorem is `Codegen/Tags.lean` (property C16).

  Model file (no Mathlib/Batteries): linked into the driver (`Driver/FrontStream.lean`).
-/
namespace Asn1Verif.Front

/-- from the tokenizer's tokens (`List Char` text, with `Location`) to the parser's tokens
    (`String` text, no location): `Token::Text(_, s)` ↦ `text s`, `Token::Separator(_, c)` ↦ `sep c`.
    The only use the parser makes of a location is the reconstruction of string literals
    (see the header of `Front/Parser.lean`) and the position reported with an error. -/
def bridge : Token → Syn.Token
  | .text _ cs => .text (String.ofList cs)
  | .separator _ c => .sep c

/-- the stage that refused the module -/
inductive Stage where
  | parse | resolve
  deriving DecidableEq, Repr, Inhabited

/-- parser, then single-module resolver -/
def parseResolve (ts : List Syn.Token) : Except (Stage × Syn.FErr) Syn.RModule :=
  match Syn.parseModule ts with
  | .error e => .error (.parse, e)
  | .ok m =>
    match Syn.tryResolve m with
    | .error e => .error (.resolve, e)
    | .ok r => .ok r

/-- the front end on a text: `panic` (tokenizer), or the verdict of parser and resolver -/
def frontEnd (s : List Char) : Outcome (Except (Stage × Syn.FErr) Syn.RModule) :=
  (fun ts => parseResolve (ts.map bridge)) <$> tokenize s

end Asn1Verif.Front
