import Asn1Verif.Front.ParserModuleLemmas
/-
  Front end — parse ∘ print for whole modules: the body loop of `Model::try_from` and the header.
-/
namespace Asn1Verif.Front.Syn
open Except

def canonDefinition (d : UDefinition) : UDefinition := { d with ty := canonTy d.ty }
def canonValueReference (v : UValueReference) : UValueReference := { v with ty := canonTy v.ty }

def printDefs (defs : List UDefinition) : List Token :=
  defs.flatMap printDefinition ++ [.text "END"]

def printItems (vrs : List UValueReference) (defs : List UDefinition) : List Token :=
  vrs.flatMap printValueReference ++ printDefs defs

theorem eqIC_END : eqIC "END" "END" = true := by decide
theorem eqIC_END_SIZE : eqIC "END" "SIZE" = false := by decide
theorem eqIC_IMPORTS : eqIC "IMPORTS" "IMPORTS" = true := by decide
theorem eqIC_IMPORTS_END : eqIC "IMPORTS" "END" = false := by decide

theorem restOk_printDefs (defs : List UDefinition) (hw : defs.all definitionWf = true) :
    RestOk (printDefs defs) := by
  cases defs with
  | nil => exact RestOk.text _ _ eqIC_END_SIZE
  | cons d tl =>
    simp only [List.all_cons, Bool.and_eq_true, definitionWf, topNameWf, Bool.not_eq_true'] at hw
    simp only [printDefs, List.flatMap_cons, printDefinition, List.cons_append, List.append_assoc]
    exact RestOk.text _ _ hw.1.1.1.2

theorem restOk_printItems (vrs : List UValueReference) (defs : List UDefinition)
    (hv : vrs.all valueReferenceWf = true) (hw : defs.all definitionWf = true) :
    RestOk (printItems vrs defs) := by
  cases vrs with
  | nil => simpa [printItems] using restOk_printDefs defs hw
  | cons v tl =>
    simp only [List.all_cons, Bool.and_eq_true, valueReferenceWf, topNameWf, Bool.not_eq_true'] at hv
    simp only [printItems, List.flatMap_cons, printValueReference, List.cons_append,
      List.append_assoc]
    exact RestOk.text _ _ hv.1.1.1.2

theorem length_tyTail_lt_printTy (t : UTy) : (tyTail t).length < (printTy t).length := by
  simp [printTy]

/-- the definitions up to `END` -/
theorem bodyLoop_defs (defs : List UDefinition) (hw : defs.all definitionWf = true)
    (hnw : defs.all (fun d => tyNoWiden d.ty) = true) :
    ∀ fuel : Nat, (printDefs defs).length < fuel + 1 →
      bodyLoop fuel (printDefs defs) = .ok { definitions := defs.map canonDefinition } := by
  induction defs with
  | nil =>
    intro fuel hf
    obtain ⟨f, rfl⟩ : ∃ f, fuel = f + 1 := ⟨fuel - 1, by simp [printDefs] at hf; omega⟩
    simp only [printDefs, List.flatMap_nil, List.nil_append]
    rw [bodyLoop]; simp [eqIC_END]
  | cons d tl ih =>
    intro fuel hf
    simp only [List.all_cons, Bool.and_eq_true] at hw hnw
    have hname := hw.1
    simp only [definitionWf, topNameWf, Bool.and_eq_true, Bool.not_eq_true'] at hname
    have hprint : printDefs (d :: tl) =
        .text d.name :: .sep ':' :: .sep ':' :: .sep '=' :: (printTag d.tag ++ (printTy d.ty ++ printDefs tl)) := by
      simp [printDefs, printDefinition]
    rw [hprint] at hf ⊢
    simp only [List.length_cons, List.length_append] at hf
    obtain ⟨f, rfl⟩ : ∃ f, fuel = f + 1 := ⟨fuel - 1, by omega⟩
    have hty := length_tyTail_lt_printTy d.ty
    have hdef := readDefinition_print d f (printDefs tl) hw.1 hnw.1 (restOk_printDefs tl hw.2)
      (by omega)
    rw [bodyLoop]
    simp only [eqTextIC_text, hname.1.1.1.1, hname.1.1.1.2, Bool.false_eq_true, if_false,
      peekIsSep_cons, eqSep_sep, beq_self_eq_true, if_true, hdef, FR.bind_ok,
      ih hw.2 hnw.2 f (by omega)]
    rfl

/-- value references, then the definitions up to `END` -/
theorem bodyLoop_items (vrs : List UValueReference) (defs : List UDefinition)
    (hv : vrs.all valueReferenceWf = true) (hvnw : vrs.all (fun v => tyNoWiden v.ty) = true)
    (hw : defs.all definitionWf = true)
    (hnw : defs.all (fun d => tyNoWiden d.ty) = true) :
    ∀ fuel : Nat, (printItems vrs defs).length < fuel + 1 →
      bodyLoop fuel (printItems vrs defs) =
        .ok { definitions := defs.map canonDefinition
              valueReferences := vrs.map canonValueReference } := by
  induction vrs with
  | nil =>
    intro fuel hf
    simpa [printItems] using bodyLoop_defs defs hw hnw fuel (by simpa [printItems] using hf)
  | cons v tl ih =>
    intro fuel hf
    simp only [List.all_cons, Bool.and_eq_true] at hv hvnw
    have hname := hv.1
    simp only [valueReferenceWf, topNameWf, Bool.and_eq_true, Bool.not_eq_true'] at hname
    have hprint : printItems (v :: tl) defs =
        .text v.name :: (printTy v.ty ++ (.sep ':' :: .sep ':' :: .sep '=' ::
          (printLit v.value ++ printItems tl defs))) := by
      simp [printItems, printValueReference]
    rw [hprint] at hf ⊢
    simp only [List.length_cons, List.length_append] at hf
    obtain ⟨f, rfl⟩ : ∃ f, fuel = f + 1 := ⟨fuel - 1, by omega⟩
    have hty := length_tyTail_lt_printTy v.ty
    have hvr := readValueReference_print v f (printItems tl defs) hv.1 hvnw.1 (by omega)
    have hpeek : peekIsSep ':' (printTy v.ty ++ (.sep ':' :: .sep ':' :: .sep '=' ::
        (printLit v.value ++ printItems tl defs))) = false := by
      simp [printTy]
    rw [bodyLoop]
    simp only [eqTextIC_text, hname.1.1.1.1, hname.1.1.1.2, Bool.false_eq_true, if_false, hpeek,
      hvr, FR.bind_ok, ih hv.2 hvnw.2 f (by omega)]
    rfl

/-- IMPORTS (if any), then the items -/
theorem bodyLoop_print (is : List Import) (vrs : List UValueReference) (defs : List UDefinition)
    (hi : is.all importWf = true)
    (hv : vrs.all valueReferenceWf = true) (hvnw : vrs.all (fun v => tyNoWiden v.ty) = true)
    (hw : defs.all definitionWf = true)
    (hnw : defs.all (fun d => tyNoWiden d.ty) = true)
    (fuel : Nat) (hf : (printImports is ++ printItems vrs defs).length < fuel + 1) :
    bodyLoop fuel (printImports is ++ printItems vrs defs) =
      .ok { imports := is
            definitions := defs.map canonDefinition
            valueReferences := vrs.map canonValueReference } := by
  cases is with
  | nil =>
    simpa [printImports] using bodyLoop_items vrs defs hv hvnw hw hnw fuel
      (by simpa [printImports] using hf)
  | cons i tl =>
    have hprint : printImports (i :: tl) = .text "IMPORTS" :: printImportsBody (i :: tl) := by
      simp [printImports, printImportsBody]
    rw [hprint] at hf ⊢
    simp only [List.cons_append, List.length_cons, List.length_append] at hf ⊢
    obtain ⟨f, rfl⟩ : ∃ f, fuel = f + 1 := ⟨fuel - 1, by omega⟩
    rw [bodyLoop]
    simp only [eqTextIC_text, eqIC_IMPORTS_END, eqIC_IMPORTS, Bool.false_eq_true, if_false, if_true,
      importsLoop_print (i :: tl) hi f (printItems vrs defs) (by omega), FR.bind_ok,
      bodyLoop_items vrs defs hv hvnw hw hnw f (by omega)]
    simp

/-! ### the header -/

theorem skipUntilAfter_header (body : List Token) :
    skipUntilAfter "BEGIN"
        (.text "DEFINITIONS" :: .text "AUTOMATIC" :: .text "TAGS" :: .sep ':' :: .sep ':' ::
          .sep '=' :: .text "BEGIN" :: body) = .ok body := by
  simp [skipUntilAfter, show eqIC "DEFINITIONS" "BEGIN" = false by decide,
    show eqIC "AUTOMATIC" "BEGIN" = false by decide, show eqIC "TAGS" "BEGIN" = false by decide,
    show eqIC "BEGIN" "BEGIN" = true by decide]

theorem map_makeNameNice (is : List Import) (h : is.all (fun i => niceName i.«from») = true) :
    is.map (fun i => { i with «from» := makeNameNice i.«from» }) = is := by
  induction is with
  | nil => rfl
  | cons i tl ih =>
    simp only [List.all_cons, Bool.and_eq_true, niceName, beq_iff_eq] at h
    simp only [List.map_cons, h.1, ih h.2]

/-- the whole module, for any sufficient recursion budget -/
theorem parseModuleFuel_print (m : UModule) (hw : moduleWf m = true)
    (hnw : moduleNoWiden m = true) (hn : moduleNiceNames m = true)
    (fuel : Nat) (hf : (printTokens m).length < fuel + 1) :
    parseModuleFuel fuel (printTokens m) = .ok (canon m) := by
  simp only [moduleWf, Bool.and_eq_true] at hw
  simp only [moduleNoWiden, Bool.and_eq_true] at hnw
  simp only [moduleNiceNames, Bool.and_eq_true, niceName, beq_iff_eq] at hn
  obtain ⟨⟨⟨hoid, himp⟩, hdefs⟩, hvrs⟩ := hw
  have hprint : printTokens m = .text m.name :: (printOid m.oid ++
      (.text "DEFINITIONS" :: .text "AUTOMATIC" :: .text "TAGS" :: .sep ':' :: .sep ':' ::
        .sep '=' :: .text "BEGIN" :: (printImports m.imports ++
          printItems m.valueReferences m.definitions))) := by
    simp [printTokens, printHeader, printItems, printDefs]
  rw [hprint] at hf ⊢
  simp only [List.length_cons, List.length_append] at hf
  have hbody := bodyLoop_print m.imports m.valueReferences m.definitions himp hvrs hnw.2
    hdefs hnw.1 fuel (by simp only [List.length_append]; omega)
  have hoidp := maybeReadOid_print m.oid hoid fuel
    (.text "DEFINITIONS" :: .text "AUTOMATIC" :: .text "TAGS" :: .sep ':' :: .sep ':' ::
        .sep '=' :: .text "BEGIN" :: (printImports m.imports ++
          printItems m.valueReferences m.definitions)) (by omega) (by simp)
  simp only [parseModuleFuel, FR.pure_eq, FR.bind_ok, hoidp, skipUntilAfter_header, hbody,
    hn.1, map_makeNameNice m.imports (by simpa [niceName] using hn.2)]
  rfl

end Asn1Verif.Front.Syn
