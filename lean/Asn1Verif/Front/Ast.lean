/-
  Front end — data model.  Mirror of the ASN.1 model of `asn1rs-model`:

    src/model.rs            `Model`, `Import`, `Definition`, `ValueReference`, `LiteralValue`, `Field`
    src/asn/mod.rs          `Asn`, `Type`
    src/asn/{integer,range,size,bit_string,enumerated,choice,components,tag,oid,charset}.rs
    src/resolve.rs          `LitOrRef`, `Unresolved`, `Resolved`, resolve `Error`
    src/parse/{token,error}.rs   `Token` (without `Location`), `ErrorKind` (as classes)

  The Rust model is generic over a `ResolveState` with three associated types
  (`SizeType`, `RangeType`, `ConstType`); here the three are explicit parameters `S I C`:

    unresolved  `S = LitOrRef Nat`  `I = LitOrRef Int`  `C = LitOrRef LiteralValue`
    resolved    `S = Nat`           `I = Int`           `C = LiteralValue`

  `Vec<Field<Asn<RS>>>` and `Vec<ChoiceVariant<RS>>` are the explicit list types `Fields`,
  `Variants` (mutual with `Ty`), so that every function over the model is structurally recursive.
  `Type::Default(Box<Type>, LiteralValue)` is never produced by the ASN.1 parser (only by the
  proc-macro attribute parser) and is not part of this mirror.

  No Mathlib/Batteries: this file is linked into the driver.
-/
namespace Asn1Verif.Front.Syn

/-! ### tokens (`parse/token.rs`, locations dropped) -/

inductive Token where
  | text (s : String)
  | sep (c : Char)
  deriving DecidableEq, Repr, Inhabited

/-- the characters of a token as they stand in the source text -/
def Token.chars : Token → List Char
  | .text s => s.toList
  | .sep c => [c]

/-! ### error classes: `parse::ErrorKind` (one class per variant), `resolve::Error`, and the
    pseudo class `fuel` (the model's recursion budget ran out; the real code has no such outcome —
    for the resolver it stands for unbounded recursion = stack overflow = process abort) -/

inductive FErr where
  | expectedText            -- ExpectedText(token)
  | expectedTextGot         -- ExpectedTextGot(text, token)
  | expectedSeparator       -- ExpectedSeparator(token)            (never constructed by the parser)
  | expectedSeparatorGot    -- ExpectedSeparatorGot(char, token)
  | unexpectedToken         -- UnexpectedToken(token)
  | missingModuleName       -- MissingModuleName
  | unexpectedEndOfStream   -- UnexpectedEndOfStream
  | invalidRangeValue       -- InvalidRangeValue(token)            (never constructed by the parser)
  | invalidNumberForEnumVariant
  | invalidValueForConstant
  | invalidTag
  | invalidPositionForExtensionMarker
  | invalidIntText
  | unsupportedLiteral
  | invalidLiteral
  | failedToResolveType        -- resolve::Error::FailedToResolveType
  | failedToResolveReference   -- resolve::Error::FailedToResolveReference
  | failedToParseLiteral       -- resolve::Error::FailedToParseLiteral
  | fuel
  deriving DecidableEq, Repr, Inhabited

def FErr.toString : FErr → String
  | .expectedText => "expected-text"
  | .expectedTextGot => "expected-text-got"
  | .expectedSeparator => "expected-sep"
  | .expectedSeparatorGot => "expected-sep-got"
  | .unexpectedToken => "unexpected-token"
  | .missingModuleName => "missing-module-name"
  | .unexpectedEndOfStream => "eof"
  | .invalidRangeValue => "invalid-range-value"
  | .invalidNumberForEnumVariant => "invalid-enum-number"
  | .invalidValueForConstant => "invalid-constant"
  | .invalidTag => "invalid-tag"
  | .invalidPositionForExtensionMarker => "invalid-ext-marker"
  | .invalidIntText => "invalid-int"
  | .unsupportedLiteral => "unsupported-literal"
  | .invalidLiteral => "invalid-literal"
  | .failedToResolveType => "resolve-type"
  | .failedToResolveReference => "resolve-reference"
  | .failedToParseLiteral => "resolve-literal"
  | .fuel => "fuel"

instance : ToString FErr := ⟨FErr.toString⟩

/-- result of a front-end function: `Ok(a)` / `Err(class)` -/
abbrev FR := Except FErr

deriving instance DecidableEq for Except

/-! ### leaves of the model -/

/-- `resolve::LitOrRef<T>` -/
inductive LitOrRef (α : Type) where
  | lit (a : α)
  | ref (name : String)
  deriving DecidableEq, Repr, Inhabited

/-- `asn::Tag` -/
inductive Tag where
  | universal (n : Nat)
  | application (n : Nat)
  | contextSpecific (n : Nat)
  | priv (n : Nat)
  deriving DecidableEq, Repr, Inhabited

/-- `asn::Charset` -/
inductive Charset where
  | utf8 | numeric | printable | ia5 | visible
  deriving DecidableEq, Repr, Inhabited

/-- `asn::Size<T>` -/
inductive Size (α : Type) where
  | any
  | fix (n : α) (ext : Bool)
  | range (min max : α) (ext : Bool)
  deriving DecidableEq, Repr, Inhabited

/-- `asn::Range<Option<T>>` -/
structure Range (α : Type) where
  min : Option α
  max : Option α
  ext : Bool
  deriving DecidableEq, Repr, Inhabited

/-- `model::LiteralValue` (bytes as `Nat < 256`) -/
inductive LiteralValue where
  | boolean (b : Bool)
  | string (s : String)
  | integer (i : Int)
  | octetString (bytes : List Nat)
  | enumeratedVariant (ty : String) (variant : String)
  deriving DecidableEq, Repr, Inhabited

/-- `asn::EnumeratedVariant` -/
structure EnumVariant where
  name : String
  number : Option Nat
  deriving DecidableEq, Repr, Inhabited

/-- `asn::Enumerated` -/
structure Enumerated where
  variants : List EnumVariant
  extAfter : Option Nat
  deriving DecidableEq, Repr, Inhabited

/-- `asn::ObjectIdentifierComponent` -/
inductive OidComponent where
  | nameForm (name : String)
  | numberForm (n : Nat)
  | nameAndNumberForm (name : String) (n : Nat)
  deriving DecidableEq, Repr, Inhabited

/-- `asn::ObjectIdentifier` -/
abbrev Oid := List OidComponent

/-- `model::Import` -/
structure Import where
  what : List String
  «from» : String
  fromOid : Option Oid
  deriving DecidableEq, Repr, Inhabited

/-! ### types -/

mutual
/-- `asn::Type<RS>` -/
inductive Ty (S I C : Type) where
  | boolean
  | integer (range : Range I) (constants : List (String × Int))
  | string (size : Size S) (charset : Charset)
  | octetString (size : Size S)
  | bitString (size : Size S) (constants : List (String × Nat))
  | null
  | optional (inner : Ty S I C)
  | sequence (fields : Fields S I C) (extAfter : Option Nat)
  | sequenceOf (inner : Ty S I C) (size : Size S)
  | set (fields : Fields S I C) (extAfter : Option Nat)
  | setOf (inner : Ty S I C) (size : Size S)
  | enumerated (e : Enumerated)
  | choice (variants : Variants S I C) (extAfter : Option Nat)
  | typeReference (name : String) (tag : Option Tag)
/-- `Vec<Field<Asn<RS>>>`; one element = `Field { name, role: Asn { tag, r#type, default } }` -/
inductive Fields (S I C : Type) where
  | nil
  | cons (name : String) (tag : Option Tag) (ty : Ty S I C) (default : Option C)
      (rest : Fields S I C)
/-- `Vec<ChoiceVariant<RS>>`; one element = `ChoiceVariant { name, tag, r#type }` -/
inductive Variants (S I C : Type) where
  | nil
  | cons (name : String) (tag : Option Tag) (ty : Ty S I C) (rest : Variants S I C)
end

deriving instance Repr for Ty, Fields, Variants

def Fields.length {S I C : Type} : Fields S I C → Nat
  | .nil => 0
  | .cons _ _ _ _ rest => rest.length + 1

def Variants.length {S I C : Type} : Variants S I C → Nat
  | .nil => 0
  | .cons _ _ _ rest => rest.length + 1

/-- `model::Definition<Asn<RS>>` = `Definition(name, Asn { tag, r#type, default: None })` -/
structure Definition (S I C : Type) where
  name : String
  tag : Option Tag
  ty : Ty S I C

/-- `model::ValueReference<Asn<RS>>` = `{ name, role: Asn { tag: None, r#type, default: None }, value }` -/
structure ValueReference (S I C : Type) where
  name : String
  ty : Ty S I C
  value : LiteralValue

/-- `model::Model<Asn<RS>>` -/
structure Module (S I C : Type) where
  name : String
  oid : Option Oid
  imports : List Import
  definitions : List (Definition S I C)
  valueReferences : List (ValueReference S I C)

/-! ### the two instances -/

abbrev USz := LitOrRef Nat
abbrev URange := LitOrRef Int
abbrev UConst := LitOrRef LiteralValue

abbrev UTy := Ty USz URange UConst
abbrev UFields := Fields USz URange UConst
abbrev UVariants := Variants USz URange UConst
abbrev UDefinition := Definition USz URange UConst
abbrev UValueReference := ValueReference USz URange UConst
/-- `Model<Asn<Unresolved>>` -/
abbrev UModule := Module USz URange UConst

abbrev RTy := Ty Nat Int LiteralValue
abbrev RFields := Fields Nat Int LiteralValue
abbrev RVariants := Variants Nat Int LiteralValue
abbrev RDefinition := Definition Nat Int LiteralValue
abbrev RValueReference := ValueReference Nat Int LiteralValue
/-- `Model<Asn<Resolved>>` -/
abbrev RModule := Module Nat Int LiteralValue

/-- `i64::MAX as usize`: the value the parser and `reconsider_constraints` use for `MAX` -/
def SIZE_MAX : Nat := 2 ^ 63 - 1
def I64_MAX : Int := 2 ^ 63 - 1
def I64_MIN : Int := -(2 ^ 63)
def U64_MAX : Nat := 2 ^ 64 - 1

end Asn1Verif.Front.Syn
