import Asn1Verif.Front.ResolveLookupLemmas
/-
  Front end — the substitution theorem for `MultiModuleResolver::try_resolve_all`: every loaded
  module replaced by its literal variant (each with its own table), resolved among the literal
  variants of its siblings.
-/
namespace Asn1Verif.Front.Syn
open Except

/-- every module replaced by its literal variant -/
def substAllWith (τ : UModule → Sigma) (m : UModule) : UModule := substModule (τ m) m

variable (τ : UModule → Sigma)

theorem importMatches_substAllWith (imp : Import) (c : UModule) :
    importMatches imp (substAllWith τ c) = importMatches imp c := rfl

theorem modelWithImportedItem_map (m : UModule) (S : List UModule) (n : String) :
    modelWithImportedItem (substAllWith τ m) (S.map (substAllWith τ)) n =
      (modelWithImportedItem m S n).map (substAllWith τ) := by
  simp only [modelWithImportedItem_eq]
  have himp : (substAllWith τ m).imports = m.imports := rfl
  rw [himp]
  cases m.imports.find? fun i => i.what.any (· == n) with
  | none => rfl
  | some imp =>
    simp only [Option.bind_some, List.find?_map]
    rfl

def viewV (r : FR (Option UValueReference)) : FR (Option LiteralValue) :=
  match r with
  | .ok o => .ok (o.map (·.value))
  | .error e => .error e

theorem valueOf_eq_viewV (sc : Scope) (n : String) : sc.valueOf n = viewV (sc.valueReference n) := by
  simp only [Scope.valueOf, viewV]
  cases sc.valueReference n <;> rfl

theorem valueReference_map (S : List UModule) (n : String) :
    ∀ (fuel : Nat) (m : UModule),
      viewV (valueReference fuel (substAllWith τ m) (S.map (substAllWith τ)) n) =
        viewV (valueReference fuel m S n) := by
  intro fuel
  induction fuel with
  | zero => intro m; rfl
  | succ f ih =>
    intro m
    rw [valueReference, valueReference, modelWithImportedItem_map]
    have h1 : (substAllWith τ m).valueReferences = m.valueReferences.map (substVR (τ m)) := rfl
    rw [h1, find?_substVR]
    cases m.valueReferences.find? fun vr => vr.name == n with
    | some vr => rfl
    | none =>
      cases modelWithImportedItem m S n with
      | none => rfl
      | some m' => exact ih m'

/-- what `Asn::try_resolve` looks at in a found definition -/
def viewD (r : FR (Option UDefinition)) : EnumView :=
  match r with
  | .ok (some d) =>
    match d.ty with
    | .enumerated e => .enumerated e
    | _ => .other
  | _ => .other

theorem viewD_substDef (σ : Sigma) (d : UDefinition) :
    viewD (.ok (some (substDef σ d))) = viewD (.ok (some d)) := by
  simp only [viewD, substDef]
  cases d.ty <;> rfl

theorem definition_map (S : List UModule) (n : String) :
    ∀ (fuel : Nat) (m : UModule),
      viewD (definition fuel (substAllWith τ m) (S.map (substAllWith τ)) n) =
        viewD (definition fuel m S n) := by
  intro fuel
  induction fuel with
  | zero => intro m; rfl
  | succ f ih =>
    intro m
    rw [definition, definition, modelWithImportedItem_map]
    have h1 : (substAllWith τ m).definitions = m.definitions.map (substDef (τ m)) := rfl
    rw [h1, find?_substDef]
    cases m.definitions.find? fun d => d.name == n with
    | some d => exact viewD_substDef (τ m) d
    | none =>
      cases modelWithImportedItem m S n with
      | none => rfl
      | some m' => exact ih m'

theorem enumView_eq_viewD (sc : Scope) (n : String) :
    sc.enumView n = viewD (sc.definition n) := by
  simp only [Scope.enumView, Scope.resolveTypeRef, viewD]
  cases h : sc.definition n with
  | error e => rfl
  | ok o =>
    cases o with
    | none => rfl
    | some d =>
      simp only [FRr.bind_ok]
      cases d.ty <;> rfl

/-- a module among its siblings and its literal variant among theirs see the same values and the
    same ENUMERATED types -/
theorem scopeEquiv_substAll (m : UModule) (S : List UModule) :
    ScopeEquiv ⟨m, S⟩ ⟨substAllWith τ m, S.map (substAllWith τ)⟩ := by
  constructor
  · intro n
    rw [valueOf_eq_viewV, valueOf_eq_viewV]
    have := valueReference_map τ S n (chaseFuel S) m
    simpa [Scope.valueReference, chaseFuel] using this
  · intro n
    rw [enumView_eq_viewD, enumView_eq_viewD]
    have := definition_map τ S n (chaseFuel S) m
    simpa [Scope.definition, chaseFuel] using this

/-- **subst** for one module of `try_resolve_all`: all loaded modules replaced by their literal
    variants -/
theorem tryResolve_substAll (m : UModule) (S : List UModule) (ha : Agrees ⟨m, S⟩ (τ m))
    (hs : SafeModule ⟨m, S⟩ (τ m) m) :
    Scope.tryResolve ⟨substAllWith τ m, S.map (substAllWith τ)⟩ = Scope.tryResolve ⟨m, S⟩ := by
  have heq := scopeEquiv_substAll τ m S
  have h1 := resolveValueRefs_subst ⟨m, S⟩ _ (τ m) heq ha m.valueReferences hs.1
  have h2 := resolveDefinitions_subst ⟨m, S⟩ _ (τ m) heq ha m.definitions hs.2
  simp only [Scope.tryResolve]
  have e1 : (substAllWith τ m).valueReferences = m.valueReferences.map (substVR (τ m)) := rfl
  have e2 : (substAllWith τ m).definitions = m.definitions.map (substDef (τ m)) := rfl
  rw [e1, e2, h1, h2]
  rfl

theorem resolveAllAux_substAll (S : List UModule)
    (hall : ∀ m ∈ S, Agrees ⟨m, S⟩ (τ m) ∧ SafeModule ⟨m, S⟩ (τ m) m) :
    ∀ L : List UModule, (∀ m ∈ L, m ∈ S) →
      resolveAllAux (S.map (substAllWith τ)) (L.map (substAllWith τ)) = resolveAllAux S L := by
  intro L
  induction L with
  | nil => intro _; rfl
  | cons m tl ih =>
    intro hL
    obtain ⟨ha, hs⟩ := hall m (hL m (by simp))
    simp only [List.map_cons, resolveAllAux, tryResolve_substAll τ m S ha hs,
      ih (fun x hx => hL x (by simp [hx]))]

/-- **subst** for `MultiModuleResolver::try_resolve_all` -/
theorem tryResolveAll_substAll (S : List UModule)
    (hall : ∀ m ∈ S, Agrees ⟨m, S⟩ (τ m) ∧ SafeModule ⟨m, S⟩ (τ m) m) :
    tryResolveAll (S.map (substAllWith τ)) = tryResolveAll S :=
  resolveAllAux_substAll τ S hall S (fun _ h => h)

end Asn1Verif.Front.Syn
