import Asn1Verif.Front.ParserLemmas
/-
  Front end — parse ∘ print for INTEGER ranges and SIZE constraints.
-/
namespace Asn1Verif.Front.Syn
open Except

theorem eqIC_SIZE_SIZE : eqIC "SIZE" "SIZE" = true := by decide

/-- a printed number is not spelled like the keyword -/
theorem int_ne_MIN (i : Int) : toString i ≠ "MIN" := by
  intro h; have := eqIC_int_MIN i; rw [h] at this; exact absurd this (by decide)
theorem int_ne_MAX (i : Int) : toString i ≠ "MAX" := by
  intro h; have := eqIC_int_MAX i; rw [h] at this; exact absurd this (by decide)
theorem nat_ne_MIN (n : Nat) : toString n ≠ "MIN" := by
  intro h; have := eqIC_nat_MIN n; rw [h] at this; exact absurd this (by decide)
theorem nat_ne_MAX (n : Nat) : toString n ≠ "MAX" := by
  intro h; have := eqIC_nat_MAX n; rw [h] at this; exact absurd this (by decide)

/-! ### `, ...` -/

@[simp] theorem maybeExtensible_print (e : Bool) (rest : List Token) :
    maybeExtensible (printExt e ++ .sep ')' :: rest) = .ok (e, .sep ')' :: rest) := by
  cases e <;> simp [maybeExtensible, printExt]

/-! ### INTEGER -/

theorem rangeBound_print (kw : String) (hint : ∀ i : Int, toString i ≠ kw)
    (b : Option URange) (hw : boundWf kw b = true) :
    rangeBound (printRangeBound kw b) kw = b := by
  cases b with
  | none => simp [printRangeBound, rangeBound]
  | some l =>
    cases l with
    | lit i =>
      have h' : I64_MIN ≤ i ∧ i ≤ I64_MAX := by simpa [boundWf, inI64] using hw
      simp only [printRangeBound, rangeBound, tInt, if_neg (hint i), parseI64_toString i h'.1 h'.2]
    | ref s =>
      simp only [boundWf, intRefWf, Bool.and_eq_true, Option.isNone_iff_eq_none, bne_iff_ne,
        ne_eq] at hw
      simp [printRangeBound, rangeBound, hw.1, hw.2]

theorem integerRange_id (r : Range URange) (hw : rangeNoWiden r = true) :
    integerRange r.min r.max r.ext = r := by
  unfold integerRange
  unfold rangeNoWiden at hw
  simp only [Bool.and_eq_true, Bool.not_eq_true', Bool.and_eq_false_iff, beq_eq_false_iff_ne] at hw
  have : ¬((r.min = some (.lit 0) ∧ r.max = none) ∨ (r.min = none ∧ r.max = some (.lit I64_MAX))) := by
    intro h
    cases h with
    | inl h => cases hw.1 with
      | inl h1 => exact h1 h.1
      | inr h1 => exact h1 h.2
    | inr h => cases hw.2 with
      | inl h1 => exact h1 h.1
      | inr h1 => exact h1 h.2
  rw [if_neg this]

/-- `parse_print_Integer`: named numbers and range (bounds, `MIN`/`MAX`, extensibility) -/
theorem parseInteger_print (r : Range URange) (cs : List (String × Int))
    (hr : rangeWf r = true) (hw : rangeNoWiden r = true)
    (hcs : constsWfI cs = true) (fuel : Nat) (hfuel : cs.length ≤ fuel)
    (rest : List Token) (hrest : RestOk rest) :
    parseInteger fuel (printConstants tInt cs ++ (printRange r ++ rest)) = .ok ((r, cs), rest) := by
  unfold rangeWf at hr
  simp only [Bool.and_eq_true] at hr
  unfold parseInteger
  by_cases hnone : r.min = none ∧ r.max = none ∧ r.ext = false
  · have hc := maybeReadConstants_print tInt constantI64 inI64 constantI64_tInt cs hcs fuel hfuel
      rest hrest.brace
    simp only [printRange, hnone, and_self, if_true, List.nil_append, hc, FR.bind_ok, hrest.paren]
    obtain ⟨a, b, c⟩ := r
    simp only at hnone
    obtain ⟨h1, h2, h3⟩ := hnone
    subst h1 h2 h3
    rfl
  · have hb1 := rangeBound_print "MIN" int_ne_MIN r.min hr.1
    have hb2 := rangeBound_print "MAX" int_ne_MAX r.max hr.2
    have hsep1 : ∀ c, (printRangeBound "MIN" r.min).eqSep c = false := by
      intro c; cases r.min with
      | none => rfl
      | some l => cases l <;> rfl
    simp only [printRange, hnone, if_false, List.cons_append, List.append_assoc, List.nil_append]
    rw [maybeReadConstants_print tInt constantI64 inI64 constantI64_tInt cs hcs fuel hfuel _
      (by simp)]
    simp [hb1, hb2, integerRange_id r hw]

/-! ### SIZE -/

theorem sizeBound_print_lit (kw : String) (hnat : ∀ n : Nat, toString n ≠ kw)
    (drop n : Nat) (h : inU64 n = true) :
    sizeBound (tNat n) kw drop = if n = drop then none else some (.lit n) := by
  have h' : n ≤ U64_MAX := by simpa [inU64] using h
  simp only [sizeBound, tNat, if_neg (hnat n), parseU64_toString n h']

theorem sizeBound_print_ref (kw s : String) (drop : Nat) (h1 : s ≠ kw)
    (h2 : parseU64 s = none) : sizeBound (.text s) kw drop = some (.ref s) := by
  simp [sizeBound, h1, h2]

theorem sizeAtomWf_ref (kw s : String) (h : sizeAtomWf kw (.ref s) = true) :
    s ≠ kw ∧ parseU64 s = none := by
  simp only [sizeAtomWf, Bool.and_eq_true, Option.isNone_iff_eq_none, bne_iff_ne, ne_eq] at h
  exact ⟨h.2, h.1⟩

/-- the lower bound as printed and read: `0` is dropped and comes back as the default `Lit(0)` -/
theorem sizeStart_print (a : USz) (hw : sizeAtomWf "MIN" a = true) :
    sizeStartOr0 (sizeBound (printSizeBound a) "MIN" 0) = a ∧
      ((sizeBound (printSizeBound a) "MIN" 0).isNone = decide (a = .lit 0)) := by
  cases a with
  | lit n =>
    rw [printSizeBound, sizeBound_print_lit "MIN" nat_ne_MIN 0 n (by simpa [sizeAtomWf] using hw)]
    by_cases h0 : n = 0
    · subst h0; simp [sizeStartOr0]
    · simp [h0, sizeStartOr0]
  | ref s =>
    rw [printSizeBound, sizeBound_print_ref "MIN" s 0 (sizeAtomWf_ref _ _ hw).1
      (sizeAtomWf_ref _ _ hw).2]
    simp [sizeStartOr0]

theorem sizeStop_print (b : USz) (hw : sizeAtomWf "MAX" b = true) :
    (sizeBound (printSizeBound b) "MAX" SIZE_MAX).getD (.lit SIZE_MAX) = b ∧
      ((sizeBound (printSizeBound b) "MAX" SIZE_MAX).isNone = decide (b = .lit SIZE_MAX)) := by
  cases b with
  | lit n =>
    rw [printSizeBound, sizeBound_print_lit "MAX" nat_ne_MAX SIZE_MAX n (by simpa [sizeAtomWf] using hw)]
    by_cases h0 : n = SIZE_MAX
    · subst h0; simp
    · simp [h0]
  | ref s =>
    rw [printSizeBound, sizeBound_print_ref "MAX" s SIZE_MAX (sizeAtomWf_ref _ _ hw).1
      (sizeAtomWf_ref _ _ hw).2]
    simp

@[simp] theorem printSizeBound_eqSep (a : USz) (c : Char) : (printSizeBound a).eqSep c = false := by
  cases a <;> rfl

/-- `parse_print_Size`: all forms of the constraint with their extensibility; the result is the
    canonical form -/
theorem maybeReadSize_print (s : Size USz) (hw : sizeWf s = true)
    (rest : List Token) (hrest : RestOk rest) :
    maybeReadSize (printSize s ++ rest) = .ok (canonSize s, rest) := by
  cases s with
  | any =>
    simp [printSize, maybeReadSize, hrest.paren, hrest.size, canonSize]
  | fix n e =>
    obtain ⟨h1, _⟩ := sizeStart_print n (by simpa [sizeWf] using hw)
    cases e <;>
      simp [printSize, maybeReadSize, parseSize, eqIC_SIZE_SIZE, printExt, h1, canonSize]
  | range a b e =>
    simp only [sizeWf, Bool.and_eq_true] at hw
    obtain ⟨ha, hb⟩ := hw
    obtain ⟨h1, h1n⟩ := sizeStart_print a ha
    obtain ⟨h2, h2n⟩ := sizeStop_print b hb
    by_cases hab : a = .lit 0 ∧ b = .lit SIZE_MAX
    · obtain ⟨ha0, hb0⟩ := hab
      subst ha0 hb0
      have hA : sizeBound (printSizeBound (.lit 0)) "MIN" 0 = none := by
        rw [← Option.isNone_iff_eq_none, h1n]; simp
      have hB : sizeBound (printSizeBound (.lit SIZE_MAX)) "MAX" SIZE_MAX = none := by
        rw [← Option.isNone_iff_eq_none, h2n]; simp
      cases e with
      | false =>
        simp [printSize, maybeReadSize, parseSize, eqIC_SIZE_SIZE, printExt, hA, hB, canonSize]
      | true =>
        -- `(0..MAX, ...)`: not the no-constraint shortcut (no `)` follows), the extensible range
        have hne : ((LitOrRef.lit 0 : USz) = .lit SIZE_MAX) = False := by
          simp [SIZE_MAX]
        have hext : maybeExtensible (Token.sep ',' :: Token.sep '.' :: Token.sep '.' :: Token.sep '.' ::
            Token.sep ')' :: Token.sep ')' :: rest) = .ok (true, Token.sep ')' :: Token.sep ')' :: rest) := by
          have := maybeExtensible_print true (Token.sep ')' :: rest)
          simpa [printExt] using this
        simp [printSize, maybeReadSize, parseSize, eqIC_SIZE_SIZE, printExt, hA, hB, canonSize,
          sizeStartOr0, hext, hne]
    · have hnn : ((sizeBound (printSizeBound a) "MIN" 0).isNone &&
          (sizeBound (printSizeBound b) "MAX" SIZE_MAX).isNone) = false := by
        rw [h1n, h2n]
        simp only [Bool.and_eq_false_iff, decide_eq_false_iff_not]
        by_cases h : a = .lit 0
        · right; exact fun hb' => hab ⟨h, hb'⟩
        · left; exact h
      have hab' : ¬ (a = .lit 0 ∧ b = .lit SIZE_MAX ∧ e = false) := fun h => hab ⟨h.1, h.2.1⟩
      simp only [printSize, maybeReadSize, parseSize, List.cons_append, nextIsSep_cons, eqSep_sep,
        beq_self_eq_true, if_true, nextTextEqIC_cons, eqTextIC_text, eqIC_SIZE_SIZE, FR.bind_ok,
        nextSepEq_cons, nextOrErr_cons, peekIsSep_cons, Bool.not_true, Bool.false_eq_true,
        if_false, dots_succ_dot, dots_zero, hnn, List.append_assoc, List.nil_append,
        maybeExtensible_print, h1, h2, canonSize, hab', Bool.false_and]
      by_cases hEq : a = b
      · simp [hEq]
      · simp [hEq]

end Asn1Verif.Front.Syn
