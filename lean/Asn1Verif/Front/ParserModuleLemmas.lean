import Asn1Verif.Front.ParserRoundTripNested
/-
  Front end — parse ∘ print at module level: object identifiers, IMPORTS, definitions, value
  references, the module header and the body loop.
-/
namespace Asn1Verif.Front.Syn
open Except

/-! ### object identifiers -/

def printOidBody (cs : Oid) : List Token := cs.flatMap printOidComponent ++ [.sep '}']

theorem printOidBody_cons (c : OidComponent) (cs : Oid) :
    printOidBody (c :: cs) = printOidComponent c ++ printOidBody cs := by
  simp [printOidBody]

theorem nextIsSep_paren_oidBody (cs : Oid) (rest : List Token) :
    nextIsSep '(' (printOidBody cs ++ rest) = none := by
  cases cs with
  | nil => simp [printOidBody]
  | cons c tl =>
    rw [printOidBody_cons]
    cases c <;> simp [printOidComponent, tNat]

theorem oidLoop_brace (f : Nat) (ts : List Token) : oidLoop (f + 1) (.sep '}' :: ts) = .ok ([], ts) := by
  rw [oidLoop]; simp

theorem tNat_all_isDigit (k : Nat) : (toString k).toList.all Char.isDigit = true :=
  toString_nat_all_isDigit k

theorem oidLoop_print (cs : Oid) (hw : cs.all oidComponentWf = true) :
    ∀ (fuel : Nat) (rest : List Token), cs.length < fuel →
      oidLoop fuel (printOidBody cs ++ rest) = .ok (cs, rest) := by
  induction cs with
  | nil =>
    intro fuel rest hf
    obtain ⟨f, rfl⟩ : ∃ f, fuel = f + 1 := ⟨fuel - 1, by omega⟩
    simp [printOidBody, oidLoop_brace]
  | cons c tl ih =>
    intro fuel rest hf
    obtain ⟨f, rfl⟩ : ∃ f, fuel = f + 1 := ⟨fuel - 1, by omega⟩
    simp only [List.all_cons, Bool.and_eq_true] at hw
    have ih' := ih hw.2 f rest (by simp at hf; omega)
    rw [printOidBody_cons]
    cases c with
    | nameForm n =>
      have hn : n.toList.all Char.isDigit = false := by simpa [oidComponentWf] using hw.1
      have hp := nextIsSep_paren_oidBody tl rest
      simp only [printOidComponent, List.cons_append, List.nil_append]
      rw [oidLoop]
      simp [hn, hp, ih']
    | numberForm k =>
      have hk : k ≤ U64_MAX := by simpa [oidComponentWf, inU64] using hw.1
      simp only [printOidComponent, tNat, List.cons_append, List.nil_append]
      rw [oidLoop]
      simp only [eqSep_text,
        Bool.false_eq_true, if_false, tNat_all_isDigit k, if_true, parseU64_toString k hk, ih',
        FR.bind_ok]
      rfl
    | nameAndNumberForm n k =>
      have hw1 : n.toList.all Char.isDigit = false ∧ k ≤ U64_MAX := by
        simpa [oidComponentWf, inU64] using hw.1
      simp only [printOidComponent, tNat, List.cons_append, List.nil_append]
      rw [oidLoop]
      simp only [eqSep_text,
        Bool.false_eq_true, if_false, hw1.1, nextIsSep_cons, eqSep_sep, beq_self_eq_true, if_true,
        nextTextOrErr_text, FR.bind_ok, parseU64_toString k hw1.2, nextSepEq_cons, ih']
      rfl

/-- `parse_print_OID` -/
theorem maybeReadOid_print (o : Option Oid) (hw : oidWf o = true) (fuel : Nat) (rest : List Token)
    (hf : (printOid o).length < fuel + 1) (hrest : nextIsSep '{' rest = none) :
    maybeReadOid fuel (printOid o ++ rest) = .ok (o, rest) := by
  cases o with
  | none => simp [printOid, maybeReadOid, hrest]
  | some cs =>
    have hlen : cs.length < fuel := by
      have h1 : cs.length ≤ (cs.flatMap printOidComponent).length := by
        induction cs with
        | nil => simp
        | cons c tl ih =>
          have hc : 1 ≤ (printOidComponent c).length := by cases c <;> simp [printOidComponent]
          have := ih (by simp only [oidWf, List.all_cons, Bool.and_eq_true] at hw ⊢; exact hw.2)
            (by simp only [printOid, List.length_cons, List.length_append, List.flatMap_cons] at hf ⊢; omega)
          simp only [List.flatMap_cons, List.length_append, List.length_cons]
          omega
      simp only [printOid, List.length_cons, List.length_append, List.length_nil] at hf
      omega
    have := oidLoop_print cs (by simpa [oidWf] using hw) fuel rest hlen
    simp only [printOidBody, List.append_assoc, List.cons_append, List.nil_append] at this
    simp [printOid, maybeReadOid, this]

/-! ### IMPORTS -/

theorem eqIC_FROM : eqIC "FROM" "FROM" = true := by decide

theorem length_printOid_pos (o : Option Oid) : (printOid o).length = 0 ∨ 2 ≤ (printOid o).length := by
  cases o with
  | none => left; rfl
  | some cs => right; simp [printOid]

/-- the symbol list of one import, `FROM`, the module name and its identifier -/
theorem importsLoop_import (syms : List String) (hne : syms ≠ []) (frm : String) (oid : Option Oid)
    (hoid : oidWf oid = true) :
    ∀ (what : List String) (f : Nat) (more : List Token), (printOid oid).length < f + 1 →
      nextIsSep '{' more = none →
      importsLoop (f + syms.length) what
          (printSymbols syms ++ .text "FROM" :: .text frm :: (printOid oid ++ more)) =
        (importsLoop f [] more >>= fun r => .ok (⟨what ++ syms, frm, oid⟩ :: r.1, r.2)) := by
  induction syms with
  | nil => exact absurd rfl hne
  | cons s tl ih =>
    intro what f more hf hmore
    cases tl with
    | nil =>
      simp only [printSymbols, List.length_cons, List.length_nil, List.cons_append, List.nil_append]
      rw [importsLoop]
      simp [eqIC_FROM, maybeReadOid_print oid hoid f more hf hmore]
    | cons s2 tl2 =>
      have ih' := ih (by simp) (what ++ [s]) f more hf hmore
      simp only [printSymbols, List.length_cons, List.cons_append] at ih' ⊢
      rw [show f + (tl2.length + 1 + 1) = (f + (tl2.length + 1)) + 1 by omega, importsLoop]
      simp [ih']

def printImportsBody (is : List Import) : List Token := is.flatMap printImport ++ [.sep ';']

theorem nextIsSep_brace_importsBody (is : List Import) (hw : is.all importWf = true)
    (rest : List Token) : nextIsSep '{' (printImportsBody is ++ rest) = none := by
  cases is with
  | nil => simp [printImportsBody]
  | cons i tl =>
    simp only [List.all_cons, Bool.and_eq_true, importWf, Bool.not_eq_true',
      List.isEmpty_eq_false_iff] at hw
    obtain ⟨what, frm, oid⟩ := i
    cases what with
    | nil => exact absurd rfl hw.1.1
    | cons s tl2 => cases tl2 <;> simp [printImportsBody, printImport, printSymbols]

/-- `parse_print_Imports` -/
theorem importsLoop_print (is : List Import) (hw : is.all importWf = true) :
    ∀ (fuel : Nat) (rest : List Token), (printImportsBody is).length < fuel + 1 →
      importsLoop fuel [] (printImportsBody is ++ rest) = .ok (is, rest) := by
  induction is with
  | nil =>
    intro fuel rest hf
    obtain ⟨f, rfl⟩ : ∃ f, fuel = f + 1 := ⟨fuel - 1, by simp [printImportsBody] at hf; omega⟩
    simp only [printImportsBody, List.flatMap_nil, List.nil_append, List.cons_append]
    rw [importsLoop]; simp
  | cons i tl ih =>
    intro fuel rest hf
    simp only [List.all_cons, Bool.and_eq_true] at hw
    obtain ⟨what, frm, oid⟩ := i
    have hiw := hw.1
    simp only [importWf, Bool.and_eq_true, Bool.not_eq_true', List.isEmpty_eq_false_iff] at hiw
    have hbody : printImportsBody (⟨what, frm, oid⟩ :: tl) =
        printSymbols what ++ .text "FROM" :: .text frm :: (printOid oid ++ printImportsBody tl) := by
      simp [printImportsBody, printImport]
    have hsym : what.length ≤ (printSymbols what).length := by
      clear hf hbody hiw hw ih
      induction what with
      | nil => simp
      | cons s tl2 ih2 =>
        cases tl2 with
        | nil => simp [printSymbols]
        | cons s2 tl3 => simp only [printSymbols, List.length_cons] at ih2 ⊢; omega
    rw [hbody] at hf ⊢
    simp only [List.length_append, List.length_cons] at hf
    obtain ⟨f, rfl⟩ : ∃ f, fuel = f + what.length := ⟨fuel - what.length, by omega⟩
    have := importsLoop_import what hiw.1 frm oid hiw.2 [] f (printImportsBody tl ++ rest)
      (by omega) (nextIsSep_brace_importsBody tl hw.2 rest)
    simp only [List.append_assoc, List.cons_append] at this ⊢
    rw [this, ih hw.2 f rest (by omega)]
    simp

/-! ### definitions and value references -/

theorem readDefinition_print (d : UDefinition) (fuel : Nat) (rest : List Token)
    (hw : definitionWf d = true) (hnw : tyNoWiden d.ty = true)
    (hr : RestOk rest) (hf : (tyTail d.ty).length < fuel) :
    readDefinition fuel d.name
        (.sep ':' :: .sep ':' :: .sep '=' :: (printTag d.tag ++ (printTy d.ty ++ rest))) =
      .ok (⟨d.name, d.tag, canonTy d.ty⟩, rest) := by
  simp only [definitionWf, Bool.and_eq_true] at hw
  simp only [readDefinition, nextSepEq_cons, eqSep_sep, beq_self_eq_true, if_true, FR.bind_ok,
    printTy, List.cons_append, nextWithOptTag_print d.tag hw.1.2 (tyHead d.ty),
    parseRoleGiven_print d.ty fuel rest hw.2 hnw hr hf]
  rfl

theorem restOk_colon (r : List Token) : RestOk (.sep ':' :: r) :=
  RestOk.sep _ _ (by decide) (by decide)

theorem readValueReference_print (v : UValueReference) (fuel : Nat) (rest : List Token)
    (hw : valueReferenceWf v = true) (hnw : tyNoWiden v.ty = true)
    (hf : (tyTail v.ty).length < fuel) :
    readValueReference fuel v.name
        (printTy v.ty ++ (.sep ':' :: .sep ':' :: .sep '=' :: (printLit v.value ++ rest))) =
      .ok (⟨v.name, canonTy v.ty, v.value⟩, rest) := by
  simp only [valueReferenceWf, Bool.and_eq_true] at hw
  simp only [readValueReference, parseRole, printTy, List.cons_append, nextTextOrErr_text,
    FR.bind_ok, parseRoleGiven_print v.ty fuel _ hw.1.2 hnw (restOk_colon _) hf, nextSepEq_cons,
    eqSep_sep, beq_self_eq_true, if_true, readLiteral_print v.value hw.2 rest]
  rfl

end Asn1Verif.Front.Syn
