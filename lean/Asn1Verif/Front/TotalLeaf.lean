import Asn1Verif.Front.TotalBase
/-
  Front end — totality of the parser model, part 2: the constructs that do not nest
  (named numbers, INTEGER, SIZE, tags, ENUMERATED, WITH COMPONENTS, literals, field tails).
  Every lemma: the budget is not exhausted and a successful call does not lengthen the input.
-/
namespace Asn1Verif.Front.Syn
open Except

/-! ### named numbers -/

theorem constantI64_post (t : Token) : Post (constantI64 t) (fun _ => True) := by
  unfold constantI64
  post_auto

theorem constantU64_post (t : Token) : Post (constantU64 t) (fun _ => True) := by
  unfold constantU64
  post_auto

macro_rules | `(tactic| post_bind) => `(tactic| with_reducible refine Post.bind (constantI64_post _) ?_)
macro_rules | `(tactic| post_tail) => `(tactic| with_reducible refine Post.mono (constantI64_post _) ?_)
macro_rules | `(tactic| post_bind) => `(tactic| with_reducible refine Post.bind (constantU64_post _) ?_)
macro_rules | `(tactic| post_tail) => `(tactic| with_reducible refine Post.mono (constantU64_post _) ?_)

theorem readConstant_post {R : Type} (parser : Token → FR R)
    (hp : ∀ t, Post (parser t) (fun _ => True)) (ts : List Token) :
    Post (readConstant parser ts) (fun r => r.2.length + 4 = ts.length) := by
  unfold readConstant
  post_bind; rintro ⟨name, ts1⟩ h1
  post_bind; intro ts2 h2
  post_bind; rintro ⟨v, ts3⟩ h3
  post_bind; intro ts4 h4
  refine Post.bind (hp v) ?_; intro x _
  exact Post.pure (by len_omega)

theorem constantsLoop_post {R : Type} (parser : Token → FR R)
    (hp : ∀ t, Post (parser t) (fun _ => True)) (fuel : Nat) (ts : List Token)
    (h : ts.length < fuel) :
    Post (constantsLoop parser fuel ts) (fun r => r.2.length < ts.length) := by
  induction fuel generalizing ts with
  | zero => omega
  | succ fuel ih =>
    unfold constantsLoop
    refine Post.bind (readConstant_post parser hp ts) ?_; rintro ⟨c, ts1⟩ h1
    post_bind; rintro ⟨t, ts2⟩ h2
    post_bind; intro continues _
    split
    · refine Post.bind (ih ts2 (by len_omega)) ?_; rintro ⟨cs, ts3⟩ h3
      exact Post.pure (by len_omega)
    · exact Post.pure (by len_omega)

theorem maybeReadConstants_post {R : Type} (parser : Token → FR R)
    (hp : ∀ t, Post (parser t) (fun _ => True)) (fuel : Nat) (ts : List Token)
    (h : ts.length ≤ fuel) :
    Post (maybeReadConstants parser fuel ts) (fun r => r.2.length ≤ ts.length) := by
  unfold maybeReadConstants
  post_split
  · rename_i ts1 _ _
    exact (constantsLoop_post parser hp fuel ts1 (by omega)).mono (fun r hr => by omega)
  · exact Post.ok (Nat.le_refl _)

macro_rules
  | `(tactic| post_bind) =>
    `(tactic| with_reducible refine Post.bind (maybeReadConstants_post _ constantI64_post _ _ (by len_omega)) ?_)
macro_rules
  | `(tactic| post_tail) =>
    `(tactic| with_reducible refine Post.mono (maybeReadConstants_post _ constantI64_post _ _ (by len_omega)) ?_)
macro_rules
  | `(tactic| post_bind) =>
    `(tactic| with_reducible refine Post.bind (maybeReadConstants_post _ constantU64_post _ _ (by len_omega)) ?_)
macro_rules
  | `(tactic| post_tail) =>
    `(tactic| with_reducible refine Post.mono (maybeReadConstants_post _ constantU64_post _ _ (by len_omega)) ?_)

/-! ### INTEGER -/

theorem maybeExtensible_post (ts : List Token) :
    Post (maybeExtensible ts) (fun r => r.2.length ≤ ts.length) := by
  unfold maybeExtensible
  post_auto

macro_rules | `(tactic| post_bind) => `(tactic| with_reducible refine Post.bind (maybeExtensible_post _) ?_)
macro_rules | `(tactic| post_tail) => `(tactic| with_reducible refine Post.mono (maybeExtensible_post _) ?_)

theorem parseInteger_post (fuel : Nat) (ts : List Token) (h : ts.length ≤ fuel) :
    Post (parseInteger fuel ts) (fun r => r.2.length ≤ ts.length) := by
  unfold parseInteger
  post_auto

macro_rules
  | `(tactic| post_bind) =>
    `(tactic| with_reducible refine Post.bind (parseInteger_post _ _ (by len_omega)) ?_)
macro_rules
  | `(tactic| post_tail) =>
    `(tactic| with_reducible refine Post.mono (parseInteger_post _ _ (by len_omega)) ?_)

/-! ### SIZE -/

theorem parseSize_post (ts : List Token) :
    Post (parseSize ts) (fun r => r.2.length < ts.length) := by
  unfold parseSize
  post_auto

macro_rules | `(tactic| post_bind) => `(tactic| with_reducible refine Post.bind (parseSize_post _) ?_)
macro_rules | `(tactic| post_tail) => `(tactic| with_reducible refine Post.mono (parseSize_post _) ?_)

theorem maybeReadSize_post (ts : List Token) :
    Post (maybeReadSize ts) (fun r => r.2.length ≤ ts.length) := by
  unfold maybeReadSize
  post_auto

macro_rules | `(tactic| post_bind) => `(tactic| with_reducible refine Post.bind (maybeReadSize_post _) ?_)
macro_rules | `(tactic| post_tail) => `(tactic| with_reducible refine Post.mono (maybeReadSize_post _) ?_)

theorem parseString_post (cs : Charset) (ts : List Token) :
    Post (parseString cs ts) (fun r => r.2.length ≤ ts.length) := by
  unfold parseString
  post_auto

/-! ### tags -/

theorem parseTagNumber_post (t : Token) : Post (parseTagNumber t) (fun _ => True) := by
  unfold parseTagNumber
  post_auto

macro_rules | `(tactic| post_bind) => `(tactic| with_reducible refine Post.bind (parseTagNumber_post _) ?_)
macro_rules | `(tactic| post_tail) => `(tactic| with_reducible refine Post.mono (parseTagNumber_post _) ?_)

theorem parseTag_post (ts : List Token) :
    Post (parseTag ts) (fun r => r.2.length < ts.length) := by
  unfold parseTag
  post_auto

macro_rules | `(tactic| post_bind) => `(tactic| with_reducible refine Post.bind (parseTag_post _) ?_)
macro_rules | `(tactic| post_tail) => `(tactic| with_reducible refine Post.mono (parseTag_post _) ?_)

theorem nextWithOptTag_post (ts : List Token) :
    Post (nextWithOptTag ts) (fun r => r.2.length < ts.length) := by
  unfold nextWithOptTag
  post_auto

macro_rules | `(tactic| post_bind) => `(tactic| with_reducible refine Post.bind (nextWithOptTag_post _) ?_)
macro_rules | `(tactic| post_tail) => `(tactic| with_reducible refine Post.mono (nextWithOptTag_post _) ?_)

/-! ### ENUMERATED -/

theorem enumLoop_post (fuel n : Nat) (ext : Bool) (ts : List Token) (h : ts.length < fuel) :
    Post (enumLoop fuel n ext ts) (fun r => r.2.length < ts.length) := by
  induction fuel generalizing n ext ts with
  | zero => omega
  | succ fuel ih =>
    unfold enumLoop
    have ih' : ∀ n ext (ts' : List Token), ts'.length < ts.length →
        Post (enumLoop fuel n ext ts') (fun r => r.2.length < ts.length) :=
      fun n ext ts' h' => (ih n ext ts' (by omega)).mono (fun r hr => by omega)
    post_auto
    all_goals
      first
        | (refine Post.bind (ih' _ _ _ (by len_omega)) ?_; intro a ha; post_auto)

theorem parseEnumerated_post (fuel : Nat) (ts : List Token) (h : ts.length ≤ fuel) :
    Post (parseEnumerated fuel ts) (fun r => r.2.length ≤ ts.length) := by
  unfold parseEnumerated
  post_bind; intro ts1 h1
  refine Post.bind (enumLoop_post fuel 0 false ts1 (by omega)) ?_; intro a ha
  post_auto

end Asn1Verif.Front.Syn
