import Asn1Verif.Front.ParserLeafLemmas
import Asn1Verif.Front.ParserEnumLemmas
import Asn1Verif.Front.ParserLitLemmas
/-
  Front end — parse ∘ print for types: the per-construct lemmas composed over nested types by
  structural induction on the printed tree (`Ty` / `Fields` / `Variants`).
-/
namespace Asn1Verif.Front.Syn
open Except

/-! ### keyword classes of the printed heads -/

theorem kwClass_BOOLEAN : kwClass "BOOLEAN" = .boolean := by decide
theorem kwClass_INTEGER : kwClass "INTEGER" = .integer := by decide
theorem kwClass_NULL : kwClass "NULL" = .null := by decide
theorem kwClass_OCTET : kwClass "OCTET" = .octet := by decide
theorem kwClass_BIT : kwClass "BIT" = .bit := by decide
theorem kwClass_ENUMERATED : kwClass "ENUMERATED" = .enumerated := by decide
theorem kwClass_CHOICE : kwClass "CHOICE" = .choice := by decide
theorem kwClass_SEQUENCE : kwClass "SEQUENCE" = .sequence := by decide
theorem kwClass_SET : kwClass "SET" = .set := by decide
theorem kwClass_UTF8 : kwClass "UTF8String" = .utf8string := by decide
theorem kwClass_IA5 : kwClass "IA5String" = .ia5string := by decide
theorem kwClass_NUMERIC : kwClass "NumericString" = .numericstring := by decide
theorem kwClass_PRINTABLE : kwClass "PrintableString" = .printablestring := by decide
theorem kwClass_VISIBLE : kwClass "VisibleString" = .visiblestring := by decide

theorem eqIC_STRING : eqIC "STRING" "STRING" = true := by decide
theorem eqIC_OF : eqIC "OF" "OF" = true := by decide
theorem eqIC_OPTIONAL : eqIC "OPTIONAL" "OPTIONAL" = true := by decide
theorem eqIC_DEFAULT : eqIC "DEFAULT" "DEFAULT" = true := by decide
theorem eqIC_DEFAULT_OPTIONAL : eqIC "DEFAULT" "OPTIONAL" = false := by decide
theorem eqIC_OPTIONAL_SIZE : eqIC "OPTIONAL" "SIZE" = false := by decide
theorem eqIC_DEFAULT_SIZE : eqIC "DEFAULT" "SIZE" = false := by decide
theorem eqIC_OF_SIZE : eqIC "OF" "SIZE" = false := by decide

/-! ### lengths (fuel accounting) -/

theorem length_printConstants {α : Type} (f : α → Token) (cs : List (String × α)) :
    cs.length ≤ (printConstants f cs).length := by
  cases cs with
  | nil => simp [printConstants]
  | cons c tl =>
    simp only [printConstants, List.length_cons]
    suffices h : ∀ l : List (String × α), l.length ≤ (printConstantsLoop f l).length by
      have := h (c :: tl); simp only [List.length_cons] at this; omega
    intro l
    induction l with
    | nil => simp
    | cons x xs ih =>
      obtain ⟨n, v⟩ := x
      cases xs with
      | nil => simp [printConstantsLoop]
      | cons y ys =>
        simp only [printConstantsLoop, List.length_append, List.length_cons, List.length_nil] at ih ⊢
        omega

theorem length_printEnumLoop (vs : List EnumVariant) (ext : Option Nat) (i : Nat) :
    2 * vs.length ≤ (printEnumLoop vs ext i).length + 1 := by
  induction vs generalizing i with
  | nil => simp
  | cons v tl ih =>
    have hitem : 1 ≤ (printEnumItem v).length := by
      unfold printEnumItem; cases v.number <;> simp
    cases tl with
    | nil =>
      simp only [printEnumLoop, List.length_append, List.length_cons, List.length_nil]
      split <;> simp <;> omega
    | cons v2 tl2 =>
      have := ih (i + 1)
      simp only [printEnumLoop, List.length_append, List.length_cons] at this ⊢
      split <;> simp at this ⊢ <;> omega

/-! ### after the type of a component: OPTIONAL / DEFAULT, then `,` or `}` -/

/-- the tokens between the type of a component and the `,`/`}` that ends it -/
def presenceToks (opt : Bool) (d : Option UConst) : List Token :=
  (if opt then [.text "OPTIONAL"] else []) ++
    (match d with
     | none => []
     | some d => .text "DEFAULT" :: printDefault d)

theorem presenceToks_restOk (opt : Bool) (d : Option UConst) (c : Char) (more : List Token)
    (hc : c = ',' ∨ c = '}') : RestOk (presenceToks opt d ++ .sep c :: more) := by
  cases opt with
  | true => exact RestOk.text _ _ eqIC_OPTIONAL_SIZE
  | false =>
    cases d with
    | none =>
      cases hc with
      | inl h => subst h; exact RestOk.sep _ _ (by decide) (by decide)
      | inr h => subst h; exact RestOk.sep _ _ (by decide) (by decide)
    | some d => exact RestOk.text _ _ eqIC_DEFAULT_SIZE

theorem readLiteral_ref (s : String) (h : defaultWf (.ref s) = true) (rest : List Token) :
    readLiteral (.text s :: rest) = .ok (.unsupportedText, .text s :: rest) := by
  simp only [defaultWf, Bool.and_eq_true, Bool.not_eq_true'] at h
  simp [readLiteral, h.1.1, h.1.2, h.2]

/-- `parse_print` for the OPTIONAL / DEFAULT part of a component (DEFAULT literals and names) -/
theorem fieldTail_print (opt : Bool) (d : Option UConst) (hod : opt = true → d = none)
    (hd : ∀ x, d = some x → defaultWf x = true) (c : Char) (hc : c = ',' ∨ c = '}')
    (more : List Token) :
    fieldTail (presenceToks opt d ++ .sep c :: more) = .ok ((opt, d, c == ','), more) := by
  have hcc : (c == ',') = true ∨ ((c == ',') = false ∧ (c == '}') = true) := by
    cases hc with
    | inl h => subst h; left; rfl
    | inr h => subst h; right; exact ⟨by decide, by decide⟩
  cases opt with
  | true =>
    have := hod rfl
    subst this
    cases hcc with
    | inl h => simp [presenceToks, fieldTail, eqIC_OPTIONAL, h]
    | inr h => simp [presenceToks, fieldTail, eqIC_OPTIONAL, h.1, h.2]
  | false =>
    cases d with
    | none =>
      cases hcc with
      | inl h => simp [presenceToks, fieldTail, h]
      | inr h => simp [presenceToks, fieldTail, h.1, h.2]
    | some x =>
      have hx := hd x rfl
      cases x with
      | lit v =>
        have hl := readLiteral_print v (by simpa [defaultWf] using hx) (.sep c :: more)
        cases hcc with
        | inl h =>
          simp [presenceToks, fieldTail, eqIC_DEFAULT, eqIC_DEFAULT_OPTIONAL, printDefault, hl, h]
        | inr h =>
          simp [presenceToks, fieldTail, eqIC_DEFAULT, eqIC_DEFAULT_OPTIONAL, printDefault, hl,
            h.1, h.2]
      | ref s =>
        have hl := readLiteral_ref s hx (.sep c :: more)
        cases hcc with
        | inl h =>
          simp [presenceToks, fieldTail, eqIC_DEFAULT, eqIC_DEFAULT_OPTIONAL, printDefault, hl, h]
        | inr h =>
          simp [presenceToks, fieldTail, eqIC_DEFAULT, eqIC_DEFAULT_OPTIONAL, printDefault, hl,
            h.1, h.2]

/-! ### one iteration of the component / alternative loops -/

theorem componentLoop_brace (f n : Nat) (ts : List Token) :
    componentLoop (f + 1) n (.sep '}' :: ts) = .ok ((.nil, none), ts) := by
  rw [componentLoop]; simp

theorem componentLoop_marker_brace (f n : Nat) (ts : List Token) :
    componentLoop (f + 1) n (.sep '.' :: .sep '.' :: .sep '.' :: .sep '}' :: ts) =
      .ok ((.nil, some (n - 1)), ts) := by
  rw [componentLoop]; simp

theorem componentLoop_marker_comma (f n : Nat) (ts : List Token) :
    componentLoop (f + 1) n (.sep '.' :: .sep '.' :: .sep '.' :: .sep ',' :: ts) =
      (componentLoop f n ts >>= fun r =>
        .ok ((r.1.1, match r.1.2 with | some k => some k | none => some (n - 1)), r.2)) := by
  rw [componentLoop]; simp; rfl

/-- a component whose type is read back as `ty'` -/
theorem componentLoop_field (f n : Nat) (name : String) (tag : Option Tag) (htag : tagWf tag = true)
    (head : String) (tailToks : List Token) (ty' : UTy) (opt : Bool) (d : Option UConst)
    (hod : opt = true → d = none) (hd : ∀ x, d = some x → defaultWf x = true)
    (c : Char) (hc : c = ',' ∨ c = '}') (more : List Token)
    (hty : parseRoleGiven f head (tailToks ++ (presenceToks opt d ++ .sep c :: more)) =
      .ok (ty', presenceToks opt d ++ .sep c :: more)) :
    componentLoop (f + 1) n
        (.text name :: (printTag tag ++ .text head :: (tailToks ++ (presenceToks opt d ++ .sep c :: more)))) =
      if c = ',' then
        (componentLoop f (n + 1) more >>= fun r =>
          .ok ((.cons name tag (if opt then .optional ty' else ty') d r.1.1, r.1.2), r.2))
      else .ok ((.cons name tag (if opt then .optional ty' else ty') d .nil, none), more) := by
  rw [componentLoop]
  simp only [nextIsSep_cons, eqSep_text, Bool.false_eq_true, if_false, nextTextOrErr_text,
    FR.bind_ok, nextWithOptTag_print tag htag head, hty, fieldTail_print opt d hod hd c hc more]
  cases hc with
  | inl h => subst h; simp
  | inr h => subst h; simp

theorem choiceLoop_marker_brace (f n : Nat) (ts : List Token) :
    choiceLoop (f + 1) (n + 1) false (.sep '.' :: .sep '.' :: .sep '.' :: .sep '}' :: ts) =
      .ok ((.nil, some n), ts) := by
  rw [choiceLoop]; simp

theorem choiceLoop_marker_comma (f n : Nat) (ts : List Token) :
    choiceLoop (f + 1) (n + 1) false (.sep '.' :: .sep '.' :: .sep '.' :: .sep ',' :: ts) =
      (choiceLoop f (n + 1) true ts >>= fun r => .ok ((r.1.1, some n), r.2)) := by
  rw [choiceLoop]; simp

theorem choiceLoop_alt (f n : Nat) (seen : Bool) (name : String) (tag : Option Tag)
    (htag : tagWf tag = true) (head : String) (tailToks : List Token) (ty' : UTy)
    (c : Char) (hc : c = ',' ∨ c = '}') (more : List Token)
    (hty : parseRoleGiven f head (tailToks ++ .sep c :: more) = .ok (ty', .sep c :: more)) :
    choiceLoop (f + 1) n seen
        (.text name :: (printTag tag ++ .text head :: (tailToks ++ .sep c :: more))) =
      if c = ',' then
        (choiceLoop f (n + 1) seen more >>= fun r =>
          .ok ((.cons name tag ty' r.1.1, r.1.2), r.2))
      else .ok ((.cons name tag ty' .nil, none), more) := by
  rw [choiceLoop]
  simp only [nextIsSep_cons, eqSep_text, Bool.false_eq_true, if_false, nextTextOrErr_text,
    FR.bind_ok, nextWithOptTag_print tag htag head, hty]
  cases hc with
  | inl h => subst h; simp
  | inr h => subst h; simp

end Asn1Verif.Front.Syn
