import Asn1Verif.Base.Outcome
import Asn1Verif.Gen.Consts
/-
  Front end — mirror of `asn1rs-model/src/parse/tokenizer.rs` (`Tokenizer::parse`),
  `parse/token.rs` (`Token`, `Token::append`) and `parse/location.rs`.

  A `&str` is a `List Char` (Lean's `Char` and Rust's `char` are both Unicode scalar values), a
  `String` inside a token is a `List Char` as well.

  Shape of the Rust function and where each part lives here:

    for (line_0, line) in asn.lines().enumerate()          `splitLines`, `lexLines`
      let mut token = None;
      let mut content_iterator = line.chars().enumerate().peekable();
      while let Some((column_0, char)) = content_iterator.next()      `lexLine`
        <loop body>                                                   `stepChar`
      if let Some(token) = previous.take() { tokens.push(token) }     `St.flush` in `lexLines`
    if let Some(token) = previous { tokens.push(token) }              `St.flush` in `tokenize`

  The loop body calls `content_iterator.next()` a second time when it consumes a two-character
  sequence (`*/`, `/*`, `--`) and leaves the loop with `break` after `--`.  Both are expressed by
  the `Mode` that `stepChar` returns: `skip1` = "the next character of the line has already been
  taken from the iterator", `skipLine` = `break`.

  Known behaviour that is mirrored as it is (see Props/C13.lean for what it means):
    * `/*` does not push the pending token (`abc/* c */def` is ONE text token `abcdef`) — as long
      as `Consts.TOKENIZER_OPEN_FLUSHES = false`; the translator reads from the current source
      whether the arm that opens a block comment pushes `previous` (planned repair R5), and the
      model follows;
    * `--` drops the rest of the line, a second `--` does not end the comment;
    * control characters other than TAB/CR/LF are dropped without ending the pending token;
    * the only `panic!`: inside a block comment, at the last character of the last line, when
      that character is neither `*` nor `/`;
    * `nest_lvl` is an `i32` (integer fallback), `nest_lvl += 1` overflows at `i32::MAX` — a panic
      under the dev profile (needs 2^31 unclosed `/*`, i.e. an input of at least 4 GiB; no
      request can exercise it, the branch is modelled for exactness only).
-/
namespace Asn1Verif.Front
open Asn1Verif Outcome

/-- `parse::Location` (1-based line and column, column counted in `char`s) -/
structure Location where
  line : Nat
  column : Nat
  deriving DecidableEq, Repr, Inhabited

/-- `parse::Token` -/
inductive Token where
  | text (loc : Location) (s : List Char)
  | separator (loc : Location) (c : Char)
  deriving DecidableEq, Repr, Inhabited

/-- `Token::append`: two text tokens merge (location of the first), anything else stays apart -/
def Token.append : Token → Token → Token × Option Token
  | .text loc s, .text _ o => (.text loc (s ++ o), none)
  | a, b => (a, some b)

def Token.location : Token → Location
  | .text loc _ => loc
  | .separator loc _ => loc

/-- `i32::MAX`: `let mut nest_lvl = 0;` is an `i32` -/
def NEST_MAX : Nat := 2147483647

/-- the arm `':' | ';' | '=' | '(' | ')' | '{' | '}' | '.' | ',' | '[' | ']' | '\'' | '"'` -/
def isSeparator (c : Char) : Bool := Consts.TOKENIZER_SEPARATORS.contains c.toNat

/-- the arm `' ' | '\r' | '\n' | '\t'` -/
def isFlush (c : Char) : Bool := Consts.TOKENIZER_FLUSH.contains c.toNat

/-- `char::is_control`: general category Cc = U+0000..=U+001F, U+007F..=U+009F -/
def isControl (c : Char) : Bool := c.toNat < 32 || (127 ≤ c.toNat && c.toNat ≤ 159)

/-- the guard `c if !c.is_control() && c != ' '` -/
def isTextStart (c : Char) : Bool := !isControl c && c != ' '

/-- the mutable locals `previous`, `tokens`, `nest_lvl` -/
structure St where
  previous : Option Token := none
  tokens : List Token := []
  nest : Nat := 0
  deriving DecidableEq, Repr, Inhabited

/-- `if let Some(token) = previous.take() { tokens.push(token); }` -/
def St.flush (st : St) : St :=
  match st.previous with
  | some t => { st with tokens := st.tokens ++ [t], previous := none }
  | none => st

/-- the block `if let Some(token) = token.take() { previous = match previous { … } }` -/
def St.push (st : St) (t : Token) : St :=
  match st.previous with
  | none => { st with previous := some t }
  | some current =>
    match current.append t with
    | (tok, none) => { st with previous := some tok }
    | (tok, some next) => { st with tokens := st.tokens ++ [tok], previous := some next }

/-- what the loop does with the iterator after the body -/
inductive Mode where
  | normal      -- take the next character
  | skip1       -- the body has called `content_iterator.next()` itself: one character is gone
  | skipLine    -- `break`
  deriving DecidableEq, Repr, Inhabited

/-- `nest_lvl += 1` -/
def St.incNest (st : St) : Outcome St :=
  if st.nest < NEST_MAX then ok { st with nest := st.nest + 1 } else panic

/-- The body of the `while let` loop for the character `c` at 0-based column `col0` of line
    number `ln` (1-based); `peek` is `content_iterator.peek()` (the next character *of the same
    line*), `lastLine` is `line_0 == asn.lines().count() - 1`. -/
def stepChar (lastLine : Bool) (ln col0 : Nat) (c : Char) (peek : Option Char) (st : St) :
    Outcome (Mode × St) :=
  if 0 < st.nest then
    if c = '*' then
      if peek = some '/' then ok (.skip1, { st with nest := st.nest - 1 })
      else ok (.normal, st)
    else if c = '/' then
      if peek = some '*' then st.incNest >>= fun st' => ok (.skip1, st')
      else ok (.normal, st)
    else if peek.isNone && lastLine then panic   -- "The file has unclosed comment blocks."
    else ok (.normal, st)
  else if c = '-' ∧ peek = some '-' then ok (.skipLine, st)
  else if c = '/' ∧ peek = some '*' then
    -- `Consts.TOKENIZER_OPEN_FLUSHES`: whether this arm contains
    -- `if let Some(token) = previous.take() { tokens.push(token); }` (read from the source)
    st.incNest >>= fun st' => ok (.skip1, if Consts.TOKENIZER_OPEN_FLUSHES then st'.flush else st')
  else if isSeparator c then ok (.normal, st.push (.separator ⟨ln, col0 + 1⟩ c))
  else if isTextStart c then ok (.normal, st.push (.text ⟨ln, col0 + 1⟩ [c]))
  else if isFlush c then ok (.normal, st.flush)
  else ok (.normal, st)                           -- `eprintln!("Ignoring unexpected character…")`

/-- the `while let Some((column_0, char)) = content_iterator.next()` loop over one line -/
def lexLine (lastLine : Bool) (ln : Nat) : Nat → Mode → List Char → St → Outcome St
  | _, _, [], st => ok st
  | col0, mode, c :: rest, st =>
    match mode with
    | .skipLine => ok st
    | .skip1 => lexLine lastLine ln (col0 + 1) .normal rest st
    | .normal =>
      stepChar lastLine ln col0 c rest.head? st >>= fun (mode', st') =>
        lexLine lastLine ln (col0 + 1) mode' rest st'

/-- `str::lines()`: lines end at `\n`; a `\r` directly before that `\n` is dropped; what follows
    the last `\n` is a line only when it is not empty (and keeps a trailing `\r`). -/
def splitLines : List Char → List (List Char)
  | [] => []
  | c :: rest =>
    if c = '\n' then [] :: splitLines rest
    else
      match rest with
      | [] => [[c]]
      | d :: rest' =>
        if c = '\r' ∧ d = '\n' then [] :: splitLines rest'
        else
          match splitLines (d :: rest') with
          | [] => [[c]]
          | l :: ls => (c :: l) :: ls

/-- the `for (line_0, line) in asn.lines().enumerate()` loop; `count = asn.lines().count()` -/
def lexLines (count : Nat) : Nat → List (List Char) → St → Outcome St
  | _, [], st => ok st
  | line0, l :: ls, st =>
    lexLine (line0 == count - 1) (line0 + 1) 0 .normal l st >>= fun st' =>
      lexLines count (line0 + 1) ls st'.flush

/-- `Tokenizer::parse` -/
def tokenize (asn : List Char) : Outcome (List Token) :=
  let ls := splitLines asn
  lexLines ls.length 0 ls {} >>= fun st => ok st.flush.tokens

end Asn1Verif.Front
