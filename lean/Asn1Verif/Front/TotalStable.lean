import Asn1Verif.Front.TotalModule
/-
  Front end — the parser model does not depend on its budget.

  `Total{Leaf,Lit,Type,Module}` show that a budget above the number of tokens is never exhausted.
  This file shows that such a budget does not influence the answer either: for every budgeted
  function `f`, `ts.length < fuel → f (fuel + 1) ts = f fuel ts`, hence
  `parseModuleFuel fuel ts = parseModule ts` for every `fuel > ts.length`.  The recursion budget is
  a device of the mirror, not an observable of the parser.
-/
namespace Asn1Verif.Front.Syn
open Except

theorem Post.bind_congr {α β : Type} {x : FR α} {f g : α → FR β} {P : α → Prop}
    (hx : Post x P) (h : ∀ a, P a → f a = g a) : x >>= f = x >>= g := by
  cases x with
  | ok a => exact h a hx
  | error e => rfl

/-- one step through two `do` blocks that start with the same statement -/
syntax "eq_bind" : tactic
macro_rules | `(tactic| eq_bind) => `(tactic| with_reducible refine Post.bind_congr (loopCtrl_post _) ?_)
macro_rules | `(tactic| eq_bind) => `(tactic| with_reducible refine Post.bind_congr (peekOrErr_post _) ?_)
macro_rules | `(tactic| eq_bind) => `(tactic| with_reducible refine Post.bind_congr (dots_post _ _) ?_)
macro_rules | `(tactic| eq_bind) => `(tactic| with_reducible refine Post.bind_congr (nextTextEqIC_post _ _) ?_)
macro_rules | `(tactic| eq_bind) => `(tactic| with_reducible refine Post.bind_congr (nextSepEq_post _ _) ?_)
macro_rules | `(tactic| eq_bind) => `(tactic| with_reducible refine Post.bind_congr (nextTextOrErr_post _) ?_)
macro_rules | `(tactic| eq_bind) => `(tactic| with_reducible refine Post.bind_congr (nextOrErr_post _) ?_)

macro_rules | `(tactic| eq_bind) => `(tactic| with_reducible refine Post.bind_congr (constantI64_post _) ?_)
macro_rules | `(tactic| eq_bind) => `(tactic| with_reducible refine Post.bind_congr (constantU64_post _) ?_)
macro_rules | `(tactic| eq_bind) => `(tactic| with_reducible refine Post.bind_congr (maybeExtensible_post _) ?_)
macro_rules | `(tactic| eq_bind) => `(tactic| with_reducible refine Post.bind_congr (parseSize_post _) ?_)
macro_rules | `(tactic| eq_bind) => `(tactic| with_reducible refine Post.bind_congr (maybeReadSize_post _) ?_)
macro_rules | `(tactic| eq_bind) => `(tactic| with_reducible refine Post.bind_congr (parseTagNumber_post _) ?_)
macro_rules | `(tactic| eq_bind) => `(tactic| with_reducible refine Post.bind_congr (parseTag_post _) ?_)
macro_rules | `(tactic| eq_bind) => `(tactic| with_reducible refine Post.bind_congr (nextWithOptTag_post _) ?_)
macro_rules | `(tactic| eq_bind) => `(tactic| with_reducible refine Post.bind_congr (valueConstraint_post _ _) ?_)
macro_rules | `(tactic| eq_bind) => `(tactic| with_reducible refine Post.bind_congr (presenceConstraint_post _) ?_)
macro_rules | `(tactic| eq_bind) => `(tactic| with_reducible refine Post.bind_congr (readLiteral_post _) ?_)
macro_rules
  | `(tactic| eq_bind) =>
    `(tactic| with_reducible refine Post.bind_congr (maybeReadConstants_post _ constantI64_post _ _ (by len_omega)) ?_)
macro_rules
  | `(tactic| eq_bind) =>
    `(tactic| with_reducible refine Post.bind_congr (maybeReadConstants_post _ constantU64_post _ _ (by len_omega)) ?_)

macro "eq_split" : tactic => `(tactic| (split <;>
  (try have := nextIsSep_some (by assumption)) <;>
  (try have := nextIsTextEqIC_some (by assumption))))

/-- `eq_auto_with [posts] [equations]`: both sides are the same code up to the budget of the
    calls; walk through it, rewriting a call with the larger budget by its equation -/
syntax "eq_auto_with" "[" term,* "]" "[" term,* "]" : tactic
macro_rules
  | `(tactic| eq_auto_with [$ps,*] [$es,*]) => do
    let binds ← ps.getElems.mapM fun t =>
      `(tactic| (with_reducible refine Post.bind_congr ($t) ?_; post_intro))
    let rws ← es.getElems.mapM fun t => `(tactic| rw [$t:term])
    `(tactic| repeat' (first
      | (with_reducible rfl)
      $[| $rws:tactic]*
      | (eq_bind; post_intro)
      $[| $binds:tactic]*
      | (refine ite_congr rfl (fun _ => ?_) (fun _ => ?_))
      | dsimp only
      | eq_split))

theorem constantsLoop_succ {R : Type} (parser : Token → FR R)
    (hp : ∀ t, Post (parser t) (fun _ => True)) (fuel : Nat) (ts : List Token)
    (h : ts.length < fuel) :
    constantsLoop parser (fuel + 1) ts = constantsLoop parser fuel ts := by
  induction fuel generalizing ts with
  | zero => omega
  | succ fuel ih =>
    rw [constantsLoop, constantsLoop]
    eq_auto_with [readConstant_post parser hp _] [ih _ (by len_omega)]

theorem maybeReadConstants_succ {R : Type} (parser : Token → FR R)
    (hp : ∀ t, Post (parser t) (fun _ => True)) (fuel : Nat) (ts : List Token)
    (h : ts.length ≤ fuel) :
    maybeReadConstants parser (fuel + 1) ts = maybeReadConstants parser fuel ts := by
  unfold maybeReadConstants
  eq_auto_with [] [constantsLoop_succ parser hp _ _ (by len_omega)]

theorem parseInteger_succ (fuel : Nat) (ts : List Token) (h : ts.length ≤ fuel) :
    parseInteger (fuel + 1) ts = parseInteger fuel ts := by
  unfold parseInteger
  eq_auto_with [] [maybeReadConstants_succ _ constantI64_post _ _ (by len_omega)]

theorem enumLoop_succ (fuel n : Nat) (ext : Bool) (ts : List Token) (h : ts.length < fuel) :
    enumLoop (fuel + 1) n ext ts = enumLoop fuel n ext ts := by
  induction fuel generalizing n ext ts with
  | zero => omega
  | succ fuel ih =>
    rw [enumLoop, enumLoop]
    eq_auto_with [] [ih _ _ _ (by len_omega)]

theorem parseEnumerated_succ (fuel : Nat) (ts : List Token) (h : ts.length ≤ fuel) :
    parseEnumerated (fuel + 1) ts = parseEnumerated fuel ts := by
  unfold parseEnumerated
  eq_auto_with [] [enumLoop_succ _ _ _ _ (by len_omega)]

theorem innerEntries_succ (fuel : Nat) (ts : List Token) (h : ts.length < fuel) :
    innerEntries (fuel + 1) ts = innerEntries fuel ts := by
  induction fuel generalizing ts with
  | zero => omega
  | succ fuel ih =>
    rw [innerEntries, innerEntries]
    split
    · rfl
    · eq_bind; rintro ⟨name, ts1⟩ h1
      dsimp only at h1 ⊢
      refine Post.bind_congr (P := fun r => r.length ≤ ts1.length) ?_ ?_
      · post_auto
      intro ts2 h2
      eq_bind; intro p _
      refine Post.bind_congr (P := fun r => r.length ≤ ts2.length) ?_ ?_
      · post_auto
      intro ts3 h3
      eq_auto_with [] [ih _ (by len_omega)]

theorem innerTypeConstraints_succ (fuel : Nat) (ts : List Token) (h : ts.length ≤ fuel) :
    innerTypeConstraints (fuel + 1) ts = innerTypeConstraints fuel ts := by
  unfold innerTypeConstraints
  eq_bind; intro ts1 h1
  eq_bind; intro ts2 h2
  eq_bind; intro ts3 h3
  refine Post.bind_congr (P := fun r => r.length ≤ ts3.length) ?_ ?_
  · post_auto
  intro ts4 h4
  rw [innerEntries_succ _ _ (by len_omega)]

theorem maybeReadWithComponents_succ (fuel : Nat) (ts : List Token) (h : ts.length ≤ fuel) :
    maybeReadWithComponents (fuel + 1) ts = maybeReadWithComponents fuel ts := by
  unfold maybeReadWithComponents
  eq_auto_with [] [innerTypeConstraints_succ _ _ (by len_omega)]

/-! ### the nesting constructs -/

/-- one more unit of budget changes nothing, for the three nesting parsers at budget `fuel` -/
def TypeStable (fuel : Nat) : Prop :=
  (∀ text (ts : List Token), ts.length < fuel →
      parseRoleGiven (fuel + 1) text ts = parseRoleGiven fuel text ts) ∧
  (∀ n ext (ts : List Token), ts.length < fuel →
      choiceLoop (fuel + 1) n ext ts = choiceLoop fuel n ext ts) ∧
  (∀ n (ts : List Token), ts.length < fuel →
      componentLoop (fuel + 1) n ts = componentLoop fuel n ts)

theorem parseRoleGiven_stable_step (fuel : Nat) (ih : TypeStable fuel) (text : String)
    (ts : List Token) (h : ts.length < fuel + 1) :
    parseRoleGiven (fuel + 1 + 1) text ts = parseRoleGiven (fuel + 1) text ts := by
  obtain ⟨ihR, ihC, ihF⟩ := ih
  rw [parseRoleGiven, parseRoleGiven]
  split
  all_goals
    eq_auto_with [parseRoleGiven_post _ _ _ (by len_omega), choiceLoop_post _ _ _ _ (by len_omega),
        componentLoop_post _ _ _ (by len_omega)]
      [ihR _ _ (by len_omega), ihC _ _ _ (by len_omega), ihF _ _ (by len_omega),
        parseInteger_succ _ _ (by len_omega),
        maybeReadConstants_succ _ constantU64_post _ _ (by len_omega),
        parseEnumerated_succ _ _ (by len_omega), maybeReadWithComponents_succ _ _ (by len_omega)]

theorem choiceLoop_stable_step (fuel : Nat) (ih : TypeStable fuel) (n : Nat) (ext : Bool)
    (ts : List Token) (h : ts.length < fuel + 1) :
    choiceLoop (fuel + 1 + 1) n ext ts = choiceLoop (fuel + 1) n ext ts := by
  obtain ⟨ihR, ihC, ihF⟩ := ih
  rw [choiceLoop, choiceLoop]
  eq_auto_with [parseRoleGiven_post _ _ _ (by len_omega), choiceLoop_post _ _ _ _ (by len_omega)]
    [ihR _ _ (by len_omega), ihC _ _ _ (by len_omega)]

theorem componentLoop_stable_step (fuel : Nat) (ih : TypeStable fuel) (n : Nat)
    (ts : List Token) (h : ts.length < fuel + 1) :
    componentLoop (fuel + 1 + 1) n ts = componentLoop (fuel + 1) n ts := by
  obtain ⟨ihR, ihC, ihF⟩ := ih
  rw [componentLoop, componentLoop]
  eq_auto_with [parseRoleGiven_post _ _ _ (by len_omega), componentLoop_post _ _ _ (by len_omega),
      fieldTail_post _]
    [ihR _ _ (by len_omega), ihF _ _ (by len_omega)]

theorem typeStable (fuel : Nat) : TypeStable fuel := by
  induction fuel with
  | zero =>
    exact ⟨fun _ ts h => absurd h (Nat.not_lt_zero _), fun _ _ ts h => absurd h (Nat.not_lt_zero _),
      fun _ ts h => absurd h (Nat.not_lt_zero _)⟩
  | succ fuel ih =>
    exact ⟨parseRoleGiven_stable_step fuel ih, choiceLoop_stable_step fuel ih,
      componentLoop_stable_step fuel ih⟩

theorem parseRoleGiven_succ (fuel : Nat) (text : String) (ts : List Token) (h : ts.length < fuel) :
    parseRoleGiven (fuel + 1) text ts = parseRoleGiven fuel text ts :=
  (typeStable fuel).1 text ts h

theorem parseRole_succ (fuel : Nat) (ts : List Token) (h : ts.length ≤ fuel) :
    parseRole (fuel + 1) ts = parseRole fuel ts := by
  unfold parseRole
  eq_auto_with [] [parseRoleGiven_succ _ _ _ (by len_omega)]

/-! ### the module level -/

theorem oidLoop_succ (fuel : Nat) (ts : List Token) (h : ts.length < fuel) :
    oidLoop (fuel + 1) ts = oidLoop fuel ts := by
  induction fuel generalizing ts with
  | zero => omega
  | succ fuel ih =>
    cases ts with
    | nil => rfl
    | cons t ts =>
      have hfuel : ts.length < fuel := by simp only [List.length_cons] at h; omega
      unfold oidLoop
      eq_auto_with [] [ih _ (by len_omega)]

theorem maybeReadOid_succ (fuel : Nat) (ts : List Token) (h : ts.length ≤ fuel) :
    maybeReadOid (fuel + 1) ts = maybeReadOid fuel ts := by
  unfold maybeReadOid
  eq_auto_with [] [oidLoop_succ _ _ (by len_omega)]

theorem importsLoop_succ (fuel : Nat) (what : List String) (ts : List Token)
    (h : ts.length < fuel) :
    importsLoop (fuel + 1) what ts = importsLoop fuel what ts := by
  induction fuel generalizing what ts with
  | zero => omega
  | succ fuel ih =>
    cases ts with
    | nil => rfl
    | cons t ts =>
      have hfuel : ts.length < fuel := by simp only [List.length_cons] at h; omega
      unfold importsLoop
      eq_auto_with [maybeReadOid_post _ _ (by len_omega)]
        [ih _ _ (by len_omega), maybeReadOid_succ _ _ (by len_omega)]

theorem readDefinition_succ (fuel : Nat) (name : String) (ts : List Token) (h : ts.length ≤ fuel) :
    readDefinition (fuel + 1) name ts = readDefinition fuel name ts := by
  unfold readDefinition
  eq_auto_with [] [parseRoleGiven_succ _ _ _ (by len_omega)]

theorem readValueReference_succ (fuel : Nat) (name : String) (ts : List Token)
    (h : ts.length ≤ fuel) :
    readValueReference (fuel + 1) name ts = readValueReference fuel name ts := by
  unfold readValueReference
  rw [parseRole_succ _ _ h]

theorem bodyLoop_succ (fuel : Nat) (ts : List Token) (h : ts.length < fuel) :
    bodyLoop (fuel + 1) ts = bodyLoop fuel ts := by
  induction fuel generalizing ts with
  | zero => omega
  | succ fuel ih =>
    cases ts with
    | nil => rfl
    | cons t ts =>
      have hfuel : ts.length < fuel := by simp only [List.length_cons] at h; omega
      unfold bodyLoop
      eq_auto_with [importsLoop_post _ _ _ (by len_omega), readDefinition_post _ _ _ (by len_omega),
          readValueReference_post _ _ _ (by len_omega)]
        [ih _ (by len_omega), importsLoop_succ _ _ _ (by len_omega),
          readDefinition_succ _ _ _ (by len_omega), readValueReference_succ _ _ _ (by len_omega)]

theorem parseModuleFuel_succ (fuel : Nat) (ts : List Token) (h : ts.length < fuel) :
    parseModuleFuel (fuel + 1) ts = parseModuleFuel fuel ts := by
  unfold parseModuleFuel
  refine Post.bind_congr (P := fun r => r.2.length < ts.length) ?_ ?_
  · split
    · exact Post.pure (by simp)
    · exact Post.error (by decide)
  rintro ⟨name, ts1⟩ h1
  eq_auto_with [maybeReadOid_post _ _ (by len_omega), skipUntilAfter_post _ _]
    [maybeReadOid_succ _ _ (by len_omega), bodyLoop_succ _ _ (by len_omega)]

/-- **The answer of the parser model does not depend on the budget**, as long as the budget
    exceeds the number of tokens -/
theorem parseModuleFuel_eq_parseModule (fuel : Nat) (ts : List Token) (h : ts.length < fuel) :
    parseModuleFuel fuel ts = parseModule ts := by
  unfold parseModule
  induction fuel with
  | zero => omega
  | succ fuel ih =>
    by_cases hf : ts.length < fuel
    · rw [parseModuleFuel_succ fuel ts hf, ih hf]
    · have : fuel = ts.length := by omega
      rw [this]

end Asn1Verif.Front.Syn
