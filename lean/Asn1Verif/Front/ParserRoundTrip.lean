import Asn1Verif.Front.ParserTypeLemmas
/-
  Front end — parse ∘ print for arbitrary nested types (structural induction on the tree).
-/
namespace Asn1Verif.Front.Syn
open Except

/-- a component type split into the type proper and the OPTIONAL flag -/
def fieldCore : UTy → UTy × Bool
  | .optional t => (t, true)
  | t => (t, false)

/-- what follows the OPTIONAL/DEFAULT part of the component with index `i` -/
def fieldsEnd (tl : UFields) (ext : Option Nat) (i : Nat) : List Token :=
  match tl with
  | .nil => printItemEnd (ext == some i) true
  | .cons .. => printItemEnd (ext == some i) false ++ printFieldsLoop tl ext (i + 1)

def variantsEnd (tl : UVariants) (ext : Option Nat) (i : Nat) : List Token :=
  match tl with
  | .nil => printItemEnd (ext == some i) true
  | .cons .. => printItemEnd (ext == some i) false ++ printVariantsLoop tl ext (i + 1)

theorem printFieldsLoop_cons (name : String) (tag : Option Tag) (ty : UTy) (d : Option UConst)
    (tl : UFields) (ext : Option Nat) (i : Nat) (hod : (fieldCore ty).2 = true → d = none) :
    printFieldsLoop (.cons name tag ty d tl) ext i =
      .text name :: (printTag tag ++ .text (tyHead (fieldCore ty).1) ::
        (tyTail (fieldCore ty).1 ++ (presenceToks (fieldCore ty).2 d ++ fieldsEnd tl ext i))) := by
  cases ty with
  | optional t =>
    have := hod rfl
    subst this
    cases tl <;> simp [printFieldsLoop, fieldCore, presenceToks, tyHead, tyTail, fieldsEnd]
  | _ =>
    cases tl <;> cases d <;>
      simp [printFieldsLoop, fieldCore, presenceToks, tyHead, tyTail, fieldsEnd]

theorem printVariantsLoop_cons (name : String) (tag : Option Tag) (ty : UTy)
    (tl : UVariants) (ext : Option Nat) (i : Nat) :
    printVariantsLoop (.cons name tag ty tl) ext i =
      .text name :: (printTag tag ++ .text (tyHead ty) :: (tyTail ty ++ variantsEnd tl ext i)) := by
  cases tl <;> simp [printVariantsLoop, variantsEnd]

theorem fieldsWf_cons (name : String) (tag : Option Tag) (ty : UTy) (d : Option UConst)
    (tl : UFields) (h : fieldsWf (.cons name tag ty d tl) = true) :
    tagWf tag = true ∧ tyWf (fieldCore ty).1 = true ∧ ((fieldCore ty).2 = true → d = none) ∧
      (∀ x, d = some x → defaultWf x = true) ∧ fieldsWf tl = true := by
  cases ty <;> cases d <;> simp_all [fieldsWf, fieldCore, tyWf]

theorem canonTy_core (ty : UTy) :
    canonTy ty = if (fieldCore ty).2 then .optional (canonTy (fieldCore ty).1)
      else canonTy (fieldCore ty).1 := by
  cases ty <;> simp [fieldCore, canonTy]

theorem tyNoWiden_core (ty : UTy) : tyNoWiden (fieldCore ty).1 = tyNoWiden ty := by
  cases ty <;> simp [fieldCore, tyNoWiden]

/-- the statement for one type -/
def TyRT (t : UTy) : Prop :=
  ∀ (fuel : Nat) (rest : List Token), tyWf t = true → tyNoWiden t = true →
    RestOk rest → (tyTail t).length < fuel →
    parseRoleGiven fuel (tyHead t) (tyTail t ++ rest) = .ok (canonTy t, rest)

def FieldsRT (fs : UFields) : Prop :=
  ∀ (ext : Option Nat) (i fuel : Nat) (rest : List Token), fieldsWf fs = true →
    fieldsNoWiden fs = true →
    (printFieldsLoop fs ext i).length ≤ fuel →
    componentLoop fuel i (printFieldsLoop fs ext i ++ rest) =
      .ok ((canonFields fs, extIn ext i fs.length), rest)

def VariantsRT (vs : UVariants) : Prop :=
  ∀ (ext : Option Nat) (i : Nat) (seen : Bool) (fuel : Nat) (rest : List Token),
    0 < vs.length → variantsWf vs = true → variantsNoWiden vs = true →
    (seen = true → extIn ext i vs.length = none) →
    (printVariantsLoop vs ext i).length ≤ fuel →
    choiceLoop fuel i seen (printVariantsLoop vs ext i ++ rest) =
      .ok ((canonVariants vs, extIn ext i vs.length), rest)

theorem restOk_printSize (s : Size USz) (rest : List Token) (h : nextIsSep '{' rest = none) :
    nextIsSep '{' (printSize s ++ rest) = none := by
  cases s <;> simp [printSize, h]

/-! ### leaves -/

theorem tyRT_boolean : TyRT .boolean := by
  intro fuel rest _ _ _ hf
  obtain ⟨f, rfl⟩ : ∃ f, fuel = f + 1 := ⟨fuel - 1, by omega⟩
  simp only [tyHead, tyTail, List.nil_append]
  rw [parseRoleGiven]; simp [kwClass_BOOLEAN, canonTy]

theorem tyRT_null : TyRT .null := by
  intro fuel rest _ _ _ hf
  obtain ⟨f, rfl⟩ : ∃ f, fuel = f + 1 := ⟨fuel - 1, by omega⟩
  simp only [tyHead, tyTail, List.nil_append]
  rw [parseRoleGiven]; simp [kwClass_NULL, canonTy]

theorem tyRT_integer (r : Range URange) (cs : List (String × Int)) : TyRT (.integer r cs) := by
  intro fuel rest hw hnw hr hf
  obtain ⟨f, rfl⟩ : ∃ f, fuel = f + 1 := ⟨fuel - 1, by omega⟩
  simp only [tyWf, Bool.and_eq_true] at hw
  simp only [tyNoWiden] at hnw
  have hlen : cs.length ≤ f := by
    have := length_printConstants tInt cs
    simp only [tyTail, List.length_append] at hf
    omega
  simp only [tyHead, tyTail, List.append_assoc]
  rw [parseRoleGiven]
  simp only [kwClass_INTEGER, parseInteger_print r cs hw.1 hnw hw.2 f hlen rest hr, FR.bind_ok,
    canonTy]
  rfl

theorem tyRT_string (s : Size USz) (c : Charset) : TyRT (.string s c) := by
  intro fuel rest hw _ hr hf
  obtain ⟨f, rfl⟩ : ∃ f, fuel = f + 1 := ⟨fuel - 1, by omega⟩
  simp only [tyWf] at hw
  simp only [tyHead, tyTail]
  rw [parseRoleGiven]
  cases c <;>
    simp [charsetKeyword, kwClass_UTF8, kwClass_IA5, kwClass_NUMERIC, kwClass_PRINTABLE,
      kwClass_VISIBLE, parseString, maybeReadSize_print s hw rest hr, canonTy]

theorem tyRT_octetString (s : Size USz) : TyRT (.octetString s) := by
  intro fuel rest hw _ hr hf
  obtain ⟨f, rfl⟩ : ∃ f, fuel = f + 1 := ⟨fuel - 1, by omega⟩
  simp only [tyWf] at hw
  simp only [tyHead, tyTail]
  rw [parseRoleGiven]
  simp [kwClass_OCTET, eqIC_STRING, maybeReadSize_print s hw rest hr, canonTy]

theorem tyRT_bitString (s : Size USz) (cs : List (String × Nat)) : TyRT (.bitString s cs) := by
  intro fuel rest hw _ hr hf
  obtain ⟨f, rfl⟩ : ∃ f, fuel = f + 1 := ⟨fuel - 1, by omega⟩
  simp only [tyWf, Bool.and_eq_true] at hw
  have hlen : cs.length ≤ f := by
    have := length_printConstants tNat cs
    simp only [tyTail, List.length_append, List.length_cons] at hf
    omega
  simp only [tyHead, tyTail]
  rw [parseRoleGiven]
  simp only [kwClass_BIT, List.cons_append, nextTextEqIC_cons, eqTextIC_text, eqIC_STRING, if_true,
    FR.bind_ok, List.append_assoc]
  rw [maybeReadConstants_print tNat constantU64 inU64 constantU64_tNat cs hw.2 f hlen _
    (restOk_printSize s rest hr.brace)]
  simp [maybeReadSize_print s hw.1 rest hr, canonTy]

theorem tyRT_enumerated (e : Enumerated) : TyRT (.enumerated e) := by
  intro fuel rest hw _ _ hf
  obtain ⟨f, rfl⟩ : ∃ f, fuel = f + 1 := ⟨fuel - 1, by omega⟩
  simp only [tyWf] at hw
  have hlen : 2 * e.variants.length ≤ f := by
    have := length_printEnumLoop e.variants e.extAfter 0
    simp only [tyTail, printEnumerated, List.length_cons] at hf
    omega
  simp only [tyHead, tyTail]
  rw [parseRoleGiven]
  simp [kwClass_ENUMERATED, parseEnumerated_print e hw f hlen rest, canonTy]

theorem tyRT_typeReference (n : String) (tag : Option Tag) : TyRT (.typeReference n tag) := by
  intro fuel rest hw _ hr hf
  obtain ⟨f, rfl⟩ : ∃ f, fuel = f + 1 := ⟨fuel - 1, by omega⟩
  simp only [tyWf, Bool.and_eq_true, decide_eq_true_eq, Option.isNone_iff_eq_none] at hw
  obtain ⟨hkw, htag⟩ := hw
  subst htag
  simp only [tyHead, tyTail, List.nil_append]
  rw [parseRoleGiven]
  simp [hkw, maybeReadWithComponents, hr.paren, canonTy]

end Asn1Verif.Front.Syn
