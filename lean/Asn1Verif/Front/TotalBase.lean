import Asn1Verif.Front.Parser
/-
  Front end — totality of the parser model, part 1: vocabulary and the token interface.

  The Rust parser is a recursive descent over a `Peekable<IntoIter<Token>>` and has no recursion
  budget.  The Lean mirror (`Front/Parser.lean`) gives every `loop { … }` / recursive call one unit
  of `fuel` and supplies `tokens.length + 1` at the top; running out is the pseudo error
  `FErr.fuel`.  The `Total*` files prove that the budget is never exhausted, for ARBITRARY token
  lists: every function `f fuel ts` of the parser satisfies

      ts.length < fuel   (loops)   resp.   ts.length ≤ fuel   (wrappers that consume a token first)
      ⊢  Post (f fuel ts) (fun (_, rest) => rest.length ≤ ts.length)

  where `Post r P` says: `r` is not `error fuel`, and if `r = ok a` then `P a`.  The length part
  is what makes the induction go through: each loop iteration consumes at least one token
  (through the primitives `nextOrErr`, `nextSepEq`, …, whose posts are exact) before it recurses,
  so the remaining input stays strictly below the remaining budget.
-/
namespace Asn1Verif.Front.Syn
open Except

/-- `r` is not the pseudo error `fuel`; a successful result satisfies `P` -/
def Post {α : Type} (r : FR α) (P : α → Prop) : Prop :=
  match r with
  | .ok a => P a
  | .error e => e ≠ .fuel

namespace Post
variable {α β : Type}

theorem ok {P : α → Prop} {a : α} (h : P a) : Post (.ok a : FR α) P := h
theorem pure {P : α → Prop} {a : α} (h : P a) : Post (Pure.pure a : FR α) P := h
theorem error {P : α → Prop} {e : FErr} (h : e ≠ .fuel) : Post (.error e : FR α) P := h

theorem bind {x : FR α} {f : α → FR β} {P : α → Prop} {Q : β → Prop}
    (hx : Post x P) (hf : ∀ a, P a → Post (f a) Q) : Post (x >>= f) Q := by
  cases x with
  | ok a => exact hf a hx
  | error e => exact hx

theorem mono {r : FR α} {P Q : α → Prop} (h : Post r P) (hpq : ∀ a, P a → Q a) : Post r Q := by
  cases r with
  | ok a => exact hpq a h
  | error e => exact h

theorem ne_fuel {r : FR α} {P : α → Prop} (h : Post r P) : r ≠ .error .fuel := by
  intro hr; subst hr; exact h rfl

theorem of_ok {r : FR α} {P : α → Prop} {a : α} (h : Post r P) (hr : r = .ok a) : P a := by
  subst hr; exact h

/-- the two halves of `Post`, as a characterisation -/
theorem iff {r : FR α} {P : α → Prop} :
    Post r P ↔ r ≠ .error .fuel ∧ ∀ a, r = .ok a → P a := by
  constructor
  · intro h; exact ⟨h.ne_fuel, fun a hr => h.of_ok hr⟩
  · intro ⟨h1, h2⟩
    cases r with
    | ok a => exact h2 a rfl
    | error e => intro he; subst he; exact h1 rfl

end Post

/-! ### the token interface: exact consumption -/

theorem nextOrErr_post (ts : List Token) :
    Post (nextOrErr ts) (fun r => r.2.length + 1 = ts.length) := by
  cases ts with
  | nil => exact Post.error (by decide)
  | cons t r => exact Post.ok rfl

theorem peekOrErr_post (ts : List Token) : Post (peekOrErr ts) (fun _ => 0 < ts.length) := by
  cases ts with
  | nil => exact Post.error (by decide)
  | cons t r => exact Post.ok (by simp)

theorem nextTextOrErr_post (ts : List Token) :
    Post (nextTextOrErr ts) (fun r => r.2.length + 1 = ts.length) := by
  cases ts with
  | nil => exact Post.error (by decide)
  | cons t r =>
    cases t with
    | text s => exact Post.ok rfl
    | sep c => exact Post.error (by decide)

theorem nextTextEqIC_post (kw : String) (ts : List Token) :
    Post (nextTextEqIC kw ts) (fun r => r.length + 1 = ts.length) := by
  cases ts with
  | nil => exact Post.error (by decide)
  | cons t r =>
    show Post (if t.eqTextIC kw then .ok r else .error .expectedTextGot) _
    split
    · exact Post.ok rfl
    · exact Post.error (by decide)

theorem nextSepEq_post (c : Char) (ts : List Token) :
    Post (nextSepEq c ts) (fun r => r.length + 1 = ts.length) := by
  cases ts with
  | nil => exact Post.error (by decide)
  | cons t r =>
    show Post (if t.eqSep c then .ok r else .error .expectedSeparatorGot) _
    split
    · exact Post.ok rfl
    · exact Post.error (by decide)

theorem nextIsSep_some {c : Char} {ts r : List Token} (h : nextIsSep c ts = some r) :
    r.length + 1 = ts.length := by
  cases ts with
  | nil => simp [nextIsSep] at h
  | cons t ts =>
    have h' : (if t.eqSep c then some ts else none) = some r := h
    split at h'
    · cases h'; rfl
    · cases h'

theorem nextIsTextEqIC_some {kw : String} {ts r : List Token} (h : nextIsTextEqIC kw ts = some r) :
    r.length + 1 = ts.length := by
  cases ts with
  | nil => simp [nextIsTextEqIC] at h
  | cons t ts =>
    have h' : (if t.eqTextIC kw then some ts else none) = some r := h
    split at h'
    · cases h'; rfl
    · cases h'

theorem dots_post (n : Nat) (ts : List Token) :
    Post (dots n ts) (fun r => r.length + n = ts.length) := by
  induction n generalizing ts with
  | zero => exact Post.ok rfl
  | succ n ih =>
    unfold dots
    refine Post.bind (nextSepEq_post '.' ts) ?_
    intro ts1 h1
    refine (ih ts1).mono ?_
    intro r hr
    omega

theorem loopCtrl_post (t : Token) : Post (loopCtrl t) (fun _ => True) := by
  unfold loopCtrl
  split
  · exact Post.ok trivial
  · split
    · exact Post.ok trivial
    · exact Post.error (by decide)

/-! ### proof automation

  `post_bind` performs one step through a `do` block whose next statement has a proved post;
  `post_tail` does the same for a call in tail position.  Both are extended by a `macro_rules`
  line after every lemma (the newest alternative is tried first).
  `post_auto` repeats: `post_bind` and name the result (a pair is taken apart), or close a
  `pure`/`ok`/`error` leaf, or `post_tail`, or split an `if`/`match` (recording what a successful
  `nextIsSep`/`nextIsTextEqIC` consumed). -/

/-- arithmetic over token-list lengths -/
macro "len_omega" : tactic => `(tactic| first
  | omega
  | ((try dsimp only at *); omega)
  | ((try simp only [List.length_cons] at *); omega))

syntax "post_bind" : tactic
syntax "post_tail" : tactic
macro_rules | `(tactic| post_bind) => `(tactic| with_reducible refine Post.bind (loopCtrl_post _) ?_)
macro_rules | `(tactic| post_tail) => `(tactic| with_reducible refine Post.mono (loopCtrl_post _) ?_)
macro_rules | `(tactic| post_bind) => `(tactic| with_reducible refine Post.bind (peekOrErr_post _) ?_)
macro_rules | `(tactic| post_tail) => `(tactic| with_reducible refine Post.mono (peekOrErr_post _) ?_)
macro_rules | `(tactic| post_bind) => `(tactic| with_reducible refine Post.bind (dots_post _ _) ?_)
macro_rules | `(tactic| post_tail) => `(tactic| with_reducible refine Post.mono (dots_post _ _) ?_)
macro_rules | `(tactic| post_bind) => `(tactic| with_reducible refine Post.bind (nextTextEqIC_post _ _) ?_)
macro_rules | `(tactic| post_tail) => `(tactic| with_reducible refine Post.mono (nextTextEqIC_post _ _) ?_)
macro_rules | `(tactic| post_bind) => `(tactic| with_reducible refine Post.bind (nextSepEq_post _ _) ?_)
macro_rules | `(tactic| post_tail) => `(tactic| with_reducible refine Post.mono (nextSepEq_post _ _) ?_)
macro_rules | `(tactic| post_bind) => `(tactic| with_reducible refine Post.bind (nextTextOrErr_post _) ?_)
macro_rules | `(tactic| post_tail) => `(tactic| with_reducible refine Post.mono (nextTextOrErr_post _) ?_)
macro_rules | `(tactic| post_bind) => `(tactic| with_reducible refine Post.bind (nextOrErr_post _) ?_)
macro_rules | `(tactic| post_tail) => `(tactic| with_reducible refine Post.mono (nextOrErr_post _) ?_)

macro "post_split" : tactic => `(tactic| (split <;>
  (try have := nextIsSep_some (by assumption)) <;>
  (try have := nextIsTextEqIC_some (by assumption))))

/-- name the result of a step; a pair is taken apart so that later `match`es substitute -/
macro "post_intro" : tactic => `(tactic| (intro a ha <;>
  (try (have _guard : Prod _ _ := a; clear _guard; rcases a with ⟨a1, a2⟩))))

macro "post_leaf" : tactic => `(tactic| first
  | ((with_reducible refine Post.error ?_); decide)
  | ((with_reducible refine Post.pure ?_); first | trivial | len_omega)
  | ((with_reducible refine Post.ok ?_); first | trivial | len_omega))

macro "post_auto" : tactic => `(tactic| repeat' (first
  | (post_bind; post_intro)
  | post_leaf
  | (post_tail; post_intro; first | trivial | len_omega)
  | dsimp only
  | post_split))

/-- `post_auto` with additional posts (induction hypotheses) given as terms -/
syntax "post_auto_with" "[" term,* "]" : tactic
macro_rules
  | `(tactic| post_auto_with [$ts,*]) => do
    let binds ← ts.getElems.mapM fun t =>
      `(tactic| (with_reducible refine Post.bind ($t) ?_; post_intro))
    let tails ← ts.getElems.mapM fun t =>
      `(tactic| (with_reducible refine Post.mono ($t) ?_; post_intro; first | trivial | len_omega))
    `(tactic| repeat' (first
      | (post_bind; post_intro)
      | post_leaf
      | (post_tail; post_intro; first | trivial | len_omega)
      $[| $binds:tactic]*
      $[| $tails:tactic]*
      | dsimp only
      | post_split))

end Asn1Verif.Front.Syn
