import Asn1Verif.Front.ResolveSubst
/-
  Front end — a value reference resolves exactly like the literal it names: leaves (INTEGER
  bounds, SIZE bounds, DEFAULT values), then every nested type, in a fixed scope.
-/
namespace Asn1Verif.Front.Syn
open Except

@[simp] theorem FRr.bind_ok {α β : Type} (a : α) (f : α → FR β) :
    ((Except.ok a : FR α) >>= f) = f a := rfl
@[simp] theorem FRr.bind_error {α β : Type} (e : FErr) (f : α → FR β) :
    ((Except.error e : FR α) >>= f) = .error e := rfl
@[simp] theorem FRr.pure_eq {α : Type} (a : α) : (pure a : FR α) = .ok a := rfl

/-! ### what a successful / failing lookup means for the three resolvers -/

theorem resolveInt_ref_found (sc : Scope) (n : String) (vr : UValueReference) (i : Int)
    (h : sc.valueReference n = .ok (some vr)) (hv : vr.value = .integer i) :
    sc.resolveInt (.ref n) = .ok i := by
  simp [Scope.resolveInt, h, hv, LiteralValue.toInteger]

theorem resolveSizeVal_ref_found (sc : Scope) (n : String) (vr : UValueReference) (i : Int)
    (h : sc.valueReference n = .ok (some vr)) (hv : vr.value = .integer i) :
    sc.resolveSizeVal (.ref n) =
      (match usizeTryFrom i with
       | some k => .ok k
       | none => .error .failedToResolveReference) := by
  simp only [Scope.resolveSizeVal, h, hv, LiteralValue.toInteger, bind, Except.bind]
  cases usizeTryFrom i <;> rfl

theorem resolveConst_ref_found (sc : Scope) (n : String) (vr : UValueReference)
    (h : sc.valueReference n = .ok (some vr)) : sc.resolveConst (.ref n) = .ok vr.value := by
  simp [Scope.resolveConst, h]

theorem usizeTryFrom_nonneg (i : Int) (h0 : 0 ≤ i) : usizeTryFrom i = some i.toNat := by
  simp [usizeTryFrom, h0]

theorem usizeTryFrom_neg (i : Int) (h0 : i < 0) : usizeTryFrom i = none := by
  simp [usizeTryFrom]; omega

/-! ### leaves -/

theorem resolveInt_subst (sc : Scope) (σ : Sigma) (ha : Agrees sc σ) (l : URange) :
    sc.resolveInt (substInt σ l) = sc.resolveInt l := by
  cases l with
  | lit i => rfl
  | ref n =>
    simp only [substInt]
    split
    · rename_i i hσ
      obtain ⟨vr, hvr, hv⟩ := ha n _ hσ
      rw [resolveInt_ref_found sc n vr i hvr hv]
      rfl
    · rfl

theorem resolveSizeVal_subst (sc : Scope) (σ : Sigma) (ha : Agrees sc σ)
    (a : USz) : sc.resolveSizeVal (substSizeAtom σ a) = sc.resolveSizeVal a := by
  cases a with
  | lit i => rfl
  | ref n =>
    simp only [substSizeAtom]
    split
    · rename_i i hσ
      obtain ⟨vr, hvr, hv⟩ := ha n _ hσ
      split
      · rename_i h0
        rw [resolveSizeVal_ref_found sc n vr i hvr hv, usizeTryFrom_nonneg i h0]
        rfl
      · rfl
    · rfl

theorem resolveOptInt_subst (sc : Scope) (σ : Sigma) (ha : Agrees sc σ) (l : Option URange) :
    sc.resolveOptInt (l.map (substInt σ)) = sc.resolveOptInt l := by
  cases l with
  | none => rfl
  | some l => simp [Scope.resolveOptInt, resolveInt_subst sc σ ha l]

/-- INTEGER ranges -/
theorem resolveRange_subst (sc : Scope) (σ : Sigma) (ha : Agrees sc σ) (r : Range URange) :
    sc.resolveRange (substRange σ r) = sc.resolveRange r := by
  simp [Scope.resolveRange, substRange, resolveOptInt_subst sc σ ha]

/-- SIZE constraints -/
theorem resolveSize_subst (sc : Scope) (σ : Sigma) (ha : Agrees sc σ)
    (s : Size USz) : sc.resolveSize (substSize σ s) = sc.resolveSize s := by
  cases s <;> simp [Scope.resolveSize, substSize, resolveSizeVal_subst sc σ ha]

/-- DEFAULT values -/
theorem resolveDefault_subst (sc : Scope) (σ : Sigma) (ha : Agrees sc σ) (ty : RTy) (uty : UTy)
    (hty : ∀ r tag, ty = .typeReference r tag → ∃ tag', uty = .typeReference r tag')
    (d : UConst) (hs : DefaultOk sc σ uty (some d)) :
    sc.resolveDefault ty (substDefault σ d) = sc.resolveDefault ty d := by
  cases d with
  | lit v => rfl
  | ref n =>
    simp only [substDefault]
    split
    · rename_i v hσ
      obtain ⟨vr, hvr, hv⟩ := ha n v hσ
      have hsafe : DefaultSafe sc uty n := hs (by simp [hσ])
      have hconst : sc.resolveConst (.ref n) = .ok v := by
        rw [resolveConst_ref_found sc n vr hvr, hv]
      cases ty with
      | typeReference r tag =>
        obtain ⟨tag', rfl⟩ := hty r tag rfl
        simp only [DefaultSafe] at hsafe
        simp only [Scope.resolveDefault]
        split at hsafe
        · rename_i e he
          rw [he]
          simp only [hsafe, hconst]
        · rename_i h2
          split
          · rename_i e h3; exact absurd h3 (h2 e)
          · exact hconst.symm
      | _ => simp only [Scope.resolveDefault, hconst]
    · rfl

end Asn1Verif.Front.Syn
